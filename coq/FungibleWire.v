(* FungibleWire.v — IsFungible<A,B> implies wire compatibility (C09): for schemas that
   do not put a NOP_VALUE wrapper of an integral type directly under a sequence
   constructor (the K3 corner, where one side is a BIN and the other an ARY
   container), fungible schemas give the same bytes and the same size estimate for
   every value that both can hold. *)
From Nop Require Import Spec Sim Fungible FungibleProps.
Local Open Scope N_scope.

Fixpoint k3free (t : ty) : bool :=
  match t with
  | TScalar _ _ | TStr _ | THnd _ _ _ => true
  | TSeq _ t' => k3free t' && Bool.eqb (is_integral (strip t')) (is_integral t')
  | TTuple _ ts | TVar ts => forallb k3free ts
  | TWrap _ t' => k3free t'
  | TMap _ k v => k3free k && k3free v
  | TOpt t' | TRes _ _ t' => k3free t'
  | TTab _ es => forallb (fun e => k3free (snd e)) es
  end.

(* ---- wrappers are transparent to everything but IsFungible's bookkeeping ------------- *)
Lemma spec_enc_strip t v : spec_enc (strip t) v = spec_enc t v.
Proof. induction t; cbn [strip]; try reflexivity. destruct (id =? 0); [reflexivity|]. cbn [spec_enc]. exact IHt. Qed.
Lemma tsize_strip t v : tsize (strip t) v = tsize t v.
Proof. induction t; cbn [strip]; try reflexivity. destruct (id =? 0); [reflexivity|]. cbn [tsize]. exact IHt. Qed.
Lemma has_type_strip t v : has_type (strip t) v = has_type t v.
Proof. induction t; cbn [strip]; try reflexivity. destruct (id =? 0); [reflexivity|]. cbn [has_type]. exact IHt. Qed.
Lemma k3free_strip t : k3free t = true -> k3free (strip t) = true.
Proof. induction t; cbn [strip]; auto. destruct (id =? 0); auto. Qed.

(* ---- std::is_same ------------------------------------------------------------------------ *)
Lemma ikind_eqb_eq a b : ikind_eqb a b = true -> a = b.
Proof. destruct a, b; cbn; congruence. Qed.
Lemma scalar_eqb_eq a b : scalar_eqb a b = true -> a = b.
Proof. destruct a, b; cbn; try congruence. intros H. f_equal. apply ikind_eqb_eq, H. Qed.

Lemma seqc_eqb_eq a b : seqc_eqb a b = true -> a = b.
Proof.
  destruct a, b; cbn; try discriminate; try reflexivity; intros H;
    repeat (apply andb_prop in H; destruct H as [H ?]);
    repeat match goal with
           | X : Bool.eqb _ _ = true |- _ => apply Bool.eqb_prop in X
           | X : (_ =? _) = true |- _ => apply N.eqb_eq in X
           | X : ikind_eqb _ _ = true |- _ => apply ikind_eqb_eq in X
           end; congruence.
Qed.
Lemma tupk_eqb_eq a b : tupk_eqb a b = true -> a = b.
Proof. destruct a, b; cbn; congruence. Qed.

Lemma ty_eqb_eq : forall a b, ty_eqb a b = true -> a = b.
Proof.
  induction a using ty_ind'; intros b Hb;
    destruct b as [c' s'|cw'|c' tb|k' ts'|id' tb|u' kb vb|tb|e' ek' tb|ts'|p' tk' z'|h' es'];
    cbn [ty_eqb] in Hb; try discriminate.
  - apply andb_prop in Hb. destruct Hb as [H1 H2]. apply N.eqb_eq in H1. apply scalar_eqb_eq in H2. congruence.
  - apply N.eqb_eq in Hb. congruence.
  - apply andb_prop in Hb. destruct Hb as [H1 H2]. rewrite (IHa _ H2), (seqc_eqb_eq _ _ H1). reflexivity.
  - apply andb_prop in Hb. destruct Hb as [H1 H2].
    rewrite (tupk_eqb_eq _ _ H1). assert (ts = ts'); [|subst; reflexivity].
    revert ts' H2. induction H as [|x r Hx _ IH]; intros [|y l] H2; try discriminate; [reflexivity|].
    apply andb_prop in H2. destruct H2 as [A B]. rewrite (Hx _ A), (IH _ B). reflexivity.
  - apply andb_prop in Hb. destruct Hb as [H1 H2]. apply N.eqb_eq in H1. rewrite (IHa _ H2). congruence.
  - apply andb_prop in Hb. destruct Hb as [Hb H3]. apply andb_prop in Hb. destruct Hb as [H1 H2].
    apply Bool.eqb_prop in H1. rewrite (IHa1 _ H2), (IHa2 _ H3). congruence.
  - rewrite (IHa _ Hb). reflexivity.
  - apply andb_prop in Hb. destruct Hb as [Hb H3]. apply andb_prop in Hb. destruct Hb as [H1 H2].
    apply N.eqb_eq in H1. apply ikind_eqb_eq in H2. rewrite (IHa _ H3). congruence.
  - assert (ts = ts'); [|subst; reflexivity].
    revert ts' Hb. induction H as [|x r Hx _ IH]; intros [|y l] H2; try discriminate; [reflexivity|].
    apply andb_prop in H2. destruct H2 as [A B]. rewrite (Hx _ A), (IH _ B). reflexivity.
  - apply andb_prop in Hb. destruct Hb as [Hb H3]. apply andb_prop in Hb. destruct Hb as [H1 H2].
    apply N.eqb_eq in H1. apply ikind_eqb_eq in H2. apply Z.eqb_eq in H3. congruence.
  - apply andb_prop in Hb. destruct Hb as [H1 H2]. apply N.eqb_eq in H1. subst.
    assert (es = es'); [|subst; reflexivity].
    revert es' H2. induction H as [|[[i a] x] r Hx _ IH]; intros [|[[j a'] y] l] H2; try discriminate; [reflexivity|].
    apply andb_prop in H2. destruct H2 as [H2 H6]. apply andb_prop in H2. destruct H2 as [H2 H5].
    apply andb_prop in H2. destruct H2 as [H3 H4]. cbn [snd] in Hx.
    apply N.eqb_eq in H3. apply Bool.eqb_prop in H4. rewrite (Hx y H5), (IH l H6). congruence.
Qed.

(* ---- integrality is preserved by IsFungible once wrappers are looked through ------------- *)
Lemma raw_kind_fungible : forall a b, fungible a b = true -> raw_kind (strip a) = raw_kind (strip b).
Proof.
  induction a; intros b Hf; cbn [fungible] in Hf.
  5: { (* wrapper *)
    cbn [strip]. destruct (id =? 0) eqn:E.
    - apply ty_eqb_eq in Hf. rewrite <- Hf. reflexivity.
    - apply IHa, Hf. }
  all: cbn [strip]; destruct (strip b) as [c' s'|cw'|c' tb|k' ts'|id' tb|u' kb vb|tb|e' ek' tb|ts'|p' tk' z'|h' es'];
    try discriminate; try reflexivity.
  - (* scalar / scalar *)
    apply andb_prop in Hf. destruct Hf as [H1 H2]. apply N.eqb_eq in H1. apply scalar_eqb_eq in H2. congruence.
  - (* tuple / seq *) destruct k; discriminate || reflexivity.
Qed.

Lemma raw_kind_k3 t : Bool.eqb (is_integral (strip t)) (is_integral t) = true -> raw_kind t = raw_kind (strip t).
Proof.
  destruct t; cbn [strip]; try reflexivity.
  destruct (id =? 0); [reflexivity|]. unfold is_integral. cbn [raw_kind].
  destruct (raw_kind (strip t)); [discriminate|reflexivity].
Qed.

Lemma forallb_cons_inv {A} (f : A -> bool) x l : forallb f (x :: l) = true -> f x = true /\ forallb f l = true.
Proof. cbn. intros H. apply andb_prop in H. exact H. Qed.

(* the statement proved by induction on the left schema *)
Definition wire_same (a : ty) : Prop := forall b v,
  fungible a b = true -> k3free a = true -> k3free b = true ->
  has_type a v = true -> has_type b v = true ->
  spec_enc a v = spec_enc b v /\ tsize a v = tsize b v.

(* reduce to a right-hand side without outer wrappers *)
Lemma wire_same_stripped a :
  (forall b v, strip b = b -> fungible a b = true -> k3free a = true -> k3free b = true ->
               has_type a v = true -> has_type b v = true ->
               spec_enc a v = spec_enc b v /\ tsize a v = tsize b v) -> wire_same a.
Proof.
  intros H b v Hf Ka Kb Ha Hb.
  rewrite <- (spec_enc_strip b), <- (tsize_strip b). apply H.
  - apply strip_idem.
  - rewrite <- fungible_strip_r. exact Hf.
  - exact Ka.
  - apply k3free_strip, Kb.
  - exact Ha.
  - rewrite has_type_strip. exact Hb.
Qed.

Ltac split_andb H :=
  repeat match type of H with
         | (_ && _) = true => let H' := fresh H in apply andb_prop in H; destruct H as [H H']
         end.

Lemma k3_seq c t : k3free (TSeq c t) = true -> k3free t = true /\ raw_kind t = raw_kind (strip t).
Proof. cbn [k3free]. intros H. apply andb_prop in H. destruct H as [A B]. split; [exact A|apply raw_kind_k3, B]. Qed.

Lemma not_integral_raw t : is_integral t = false -> raw_kind t = None.
Proof. unfold is_integral. destruct (raw_kind t); [discriminate|reflexivity]. Qed.

(* sequence elements, one schema on each side *)
Lemma wire_elems ta tb : wire_same ta -> fungible ta tb = true -> k3free ta = true -> k3free tb = true ->
  forall vs, forallb (has_type ta) vs = true -> forallb (has_type tb) vs = true ->
  flat_map (spec_enc ta) vs = flat_map (spec_enc tb) vs /\ sum_sizes (tsize ta) vs = sum_sizes (tsize tb) vs.
Proof.
  intros IH Hf Ka Kb. induction vs as [|x vs IHvs]; intros Ha Hb; [split; reflexivity|].
  apply forallb_cons_inv in Ha. apply forallb_cons_inv in Hb. destruct Ha as [Ha1 Ha2], Hb as [Hb1 Hb2].
  destruct (IH tb x Hf Ka Kb Ha1 Hb1) as [E1 E2]. destruct (IHvs Ha2 Hb2) as [E3 E4].
  cbn [flat_map sum_sizes]. rewrite E1, E2, E3, E4. split; reflexivity.
Qed.

Lemma nlen_eq {A B} (l : list A) (l' : list B) : length l = length l' -> nlen l = nlen l'.
Proof. unfold nlen. congruence. Qed.

(* a sequence on the left, a tuple on the right *)
Lemma wire_seq_tuple ta : wire_same ta -> k3free ta = true ->
  forall ts vs, forallb (fungible ta) ts = true -> forallb k3free ts = true ->
  forallb (has_type ta) vs = true -> has_type (TTuple KTuple ts) (VSeq vs) = true ->
  length vs = length ts /\
  flat_map (spec_enc ta) vs =
    (fix go (ts : list ty) (vs : list val) {struct ts} : bytes :=
       match ts, vs with t' :: ts', x :: vs' => spec_enc t' x ++ go ts' vs' | _, _ => [] end) ts vs /\
  sum_sizes (tsize ta) vs =
    (fix go (ts : list ty) (vs : list val) {struct ts} : N :=
       match ts, vs with t' :: ts', v' :: vs' => tsize t' v' + go ts' vs' | _, _ => 0 end) ts vs.
Proof.
  intros IH Ka ts. induction ts as [|t ts IHts]; intros [|x vs] Hf Kt Ha Hb; cbn [has_type] in Hb; try discriminate.
  - repeat split; reflexivity.
  - apply forallb_cons_inv in Hf. apply forallb_cons_inv in Kt. apply forallb_cons_inv in Ha.
    destruct Hf as [Hf1 Hf2], Kt as [Kt1 Kt2], Ha as [Ha1 Ha2]. apply andb_prop in Hb. destruct Hb as [Hb1 Hb2].
    destruct (IH t x Hf1 Ka Kt1 Ha1 Hb1) as [E1 E2].
    destruct (IHts vs Hf2 Kt2 Ha2 Hb2) as (L & E3 & E4).
    cbn [flat_map sum_sizes length]. rewrite E1, E2, E3, E4, L. repeat split; reflexivity.
Qed.

(* a tuple on the left, a sequence on the right *)
Lemma wire_tuple_seq tb ts : Forall wire_same ts -> k3free tb = true ->
  forall vs, forallb (fun t => fungible t tb) ts = true -> forallb k3free ts = true ->
  has_type (TTuple KTuple ts) (VSeq vs) = true -> forallb (has_type tb) vs = true ->
  length vs = length ts /\
  (fix go (ts : list ty) (vs : list val) {struct ts} : bytes :=
     match ts, vs with t' :: ts', x :: vs' => spec_enc t' x ++ go ts' vs' | _, _ => [] end) ts vs =
    flat_map (spec_enc tb) vs /\
  (fix go (ts : list ty) (vs : list val) {struct ts} : N :=
     match ts, vs with t' :: ts', v' :: vs' => tsize t' v' + go ts' vs' | _, _ => 0 end) ts vs =
    sum_sizes (tsize tb) vs.
Proof.
  intros H Kb. induction H as [|t ts Ht _ IHts]; intros [|x vs] Hf Kt Ha Hb; cbn [has_type] in Ha; try discriminate.
  - repeat split; reflexivity.
  - apply forallb_cons_inv in Hf. apply forallb_cons_inv in Kt. apply forallb_cons_inv in Hb.
    destruct Hf as [Hf1 Hf2], Kt as [Kt1 Kt2], Hb as [Hb1 Hb2]. apply andb_prop in Ha. destruct Ha as [Ha1 Ha2].
    destruct (Ht tb x Hf1 Kt1 Kb Ha1 Hb1) as [E1 E2].
    destruct (IHts vs Hf2 Kt2 Ha2 Hb2) as (L & E3 & E4).
    cbn [flat_map sum_sizes length]. rewrite E1, E2, E3, E4, L. repeat split; reflexivity.
Qed.

(* member lists compared pairwise *)
Lemma wire_members ts : Forall wire_same ts ->
  forall ts' vs,
  (fix go (ts ts' : list ty) {struct ts} : bool :=
     match ts, ts' with [], [] => true | x :: r, y :: r' => fungible x y && go r r' | _, _ => false end) ts ts' = true ->
  forallb k3free ts = true -> forallb k3free ts' = true ->
  has_type (TTuple KTuple ts) (VSeq vs) = true -> has_type (TTuple KTuple ts') (VSeq vs) = true ->
  length ts = length ts' /\
  (fix go (ts : list ty) (vs : list val) {struct ts} : bytes :=
     match ts, vs with t' :: ts', x :: vs' => spec_enc t' x ++ go ts' vs' | _, _ => [] end) ts vs =
  (fix go (ts : list ty) (vs : list val) {struct ts} : bytes :=
     match ts, vs with t' :: ts', x :: vs' => spec_enc t' x ++ go ts' vs' | _, _ => [] end) ts' vs /\
  (fix go (ts : list ty) (vs : list val) {struct ts} : N :=
     match ts, vs with t' :: ts', v' :: vs' => tsize t' v' + go ts' vs' | _, _ => 0 end) ts vs =
  (fix go (ts : list ty) (vs : list val) {struct ts} : N :=
     match ts, vs with t' :: ts', v' :: vs' => tsize t' v' + go ts' vs' | _, _ => 0 end) ts' vs.
Proof.
  intros H. induction H as [|t ts Ht _ IHts]; intros [|t' ts'] vs Hf Ka Kb Ha Hb; try discriminate.
  - repeat split; reflexivity.
  - destruct vs as [|x vs]; cbn [has_type] in Ha, Hb; try discriminate.
    apply andb_prop in Hf. apply forallb_cons_inv in Ka. apply forallb_cons_inv in Kb.
    apply andb_prop in Ha. apply andb_prop in Hb.
    destruct Hf as [Hf1 Hf2], Ka as [Ka1 Ka2], Kb as [Kb1 Kb2], Ha as [Ha1 Ha2], Hb as [Hb1 Hb2].
    destruct (Ht t' x Hf1 Ka1 Kb1 Ha1 Hb1) as [E1 E2].
    destruct (IHts ts' vs Hf2 Ka2 Kb2 Ha2 Hb2) as (L & E3 & E4).
    cbn [length]. rewrite E1, E2, E3, E4, L. repeat split; reflexivity.
Qed.

(* variant alternatives *)
Lemma wire_alts ts : Forall wire_same ts ->
  forall ts' n x,
  (fix go (ts ts' : list ty) {struct ts} : bool :=
     match ts, ts' with [], [] => true | a :: r, b :: r' => fungible a b && go r r' | _, _ => false end) ts ts' = true ->
  forallb k3free ts = true -> forallb k3free ts' = true ->
  (fix pick (ts : list ty) (n : nat) : bool :=
     match ts with [] => false | t' :: ts' => match n with O => has_type t' x | S n' => pick ts' n' end end) ts n = true ->
  (fix pick (ts : list ty) (n : nat) : bool :=
     match ts with [] => false | t' :: ts' => match n with O => has_type t' x | S n' => pick ts' n' end end) ts' n = true ->
  (fix pick (ts : list ty) (n : nat) {struct ts} : bytes :=
     match ts with [] => [] | t' :: ts' => match n with O => spec_enc t' x | S n' => pick ts' n' end end) ts n =
  (fix pick (ts : list ty) (n : nat) {struct ts} : bytes :=
     match ts with [] => [] | t' :: ts' => match n with O => spec_enc t' x | S n' => pick ts' n' end end) ts' n /\
  (fix pick (ts : list ty) (n : nat) {struct ts} : N :=
     match ts with [] => 0 | t' :: ts' => match n with O => tsize t' x | S n' => pick ts' n' end end) ts n =
  (fix pick (ts : list ty) (n : nat) {struct ts} : N :=
     match ts with [] => 0 | t' :: ts' => match n with O => tsize t' x | S n' => pick ts' n' end end) ts' n.
Proof.
  intros H. induction H as [|t ts Ht _ IHts]; intros [|t' ts'] n x Hf Ka Kb Ha Hb; try discriminate.
  apply andb_prop in Hf. apply forallb_cons_inv in Ka. apply forallb_cons_inv in Kb.
  destruct Hf as [Hf1 Hf2], Ka as [Ka1 Ka2], Kb as [Kb1 Kb2].
  destruct n as [|n].
  - exact (Ht t' x Hf1 Ka1 Kb1 Ha Hb).
  - exact (IHts ts' n x Hf2 Ka2 Kb2 Ha Hb).
Qed.

(* table entries *)
Lemma wire_entries es : Forall (fun e => wire_same (snd e)) es ->
  forall es' xs,
  (fix go (es es' : list (N * bool * ty)) {struct es} : bool :=
     match es, es' with
     | [], [] => true
     | (i, a1, x) :: r, (j, a2, y) :: r' => (i =? j) && Bool.eqb a1 a2 && fungible x y && go r r'
     | _, _ => false
     end) es es' = true ->
  forallb (fun e => k3free (snd e)) es = true -> forallb (fun e => k3free (snd e)) es' = true ->
  (fix go (es : list (N * bool * ty)) (xs : list val) : bool :=
     match es, xs with
     | [], [] => true
     | (_, act, t') :: es', x :: xs' =>
         (match x with
          | VNone => true
          | VSome y => act && has_type t' y && (tsize t' y <? two64)
          | _ => false
          end) && go es' xs'
     | _, _ => false
     end) es xs = true ->
  (fix go (es : list (N * bool * ty)) (xs : list val) : bool :=
     match es, xs with
     | [], [] => true
     | (_, act, t') :: es', x :: xs' =>
         (match x with
          | VNone => true
          | VSome y => act && has_type t' y && (tsize t' y <? two64)
          | _ => false
          end) && go es' xs'
     | _, _ => false
     end) es' xs = true ->
  (fix go (es : list (N * bool * ty)) (xs : list val) {struct es} : bytes :=
     match es, xs with
     | (eid, act, t') :: es', x :: xs' =>
         (match x with
          | VSome y =>
              let body := spec_enc t' y in
              let sz := tsize t' y in
              uint_enc eid ++ uint_enc sz ++ body ++ repeat 0 (N.to_nat (sz - nlen body))
          | _ => []
          end) ++ go es' xs'
     | _, _ => []
     end) es xs =
  (fix go (es : list (N * bool * ty)) (xs : list val) {struct es} : bytes :=
     match es, xs with
     | (eid, act, t') :: es', x :: xs' =>
         (match x with
          | VSome y =>
              let body := spec_enc t' y in
              let sz := tsize t' y in
              uint_enc eid ++ uint_enc sz ++ body ++ repeat 0 (N.to_nat (sz - nlen body))
          | _ => []
          end) ++ go es' xs'
     | _, _ => []
     end) es' xs /\
  (fix go (es : list (N * bool * ty)) (xs : list val) {struct es} : N :=
     match es, xs with
     | (eid, act, t') :: es', x :: xs' =>
         (match x with
          | VSome y => if act then let sz := tsize t' y in usize eid + usize sz + sz else 0
          | _ => 0
          end) + go es' xs'
     | _, _ => 0
     end) es xs =
  (fix go (es : list (N * bool * ty)) (xs : list val) {struct es} : N :=
     match es, xs with
     | (eid, act, t') :: es', x :: xs' =>
         (match x with
          | VSome y => if act then let sz := tsize t' y in usize eid + usize sz + sz else 0
          | _ => 0
          end) + go es' xs'
     | _, _ => 0
     end) es' xs.
Proof.
  intros H.
  induction H as [|[[i a] t] es Ht _ IHes]; intros [|[[j a'] t'] es'] xs Hf Ka Kb Ha Hb; try discriminate.
  - split; reflexivity.
  - cbn [snd] in Ht. destruct xs as [|x xs]; try discriminate.
    apply andb_prop in Hf. destruct Hf as [Hf Hf4]. apply andb_prop in Hf. destruct Hf as [Hf Hf3].
    apply andb_prop in Hf. destruct Hf as [Hf1 Hf2]. apply N.eqb_eq in Hf1. apply Bool.eqb_prop in Hf2. subst j a'.
    apply forallb_cons_inv in Ka. apply forallb_cons_inv in Kb. cbn [snd] in Ka, Kb.
    destruct Ka as [Ka1 Ka2], Kb as [Kb1 Kb2].
    apply andb_prop in Ha. apply andb_prop in Hb. destruct Ha as [Ha1 Ha2], Hb as [Hb1 Hb2].
    destruct (IHes es' xs Hf4 Ka2 Kb2 Ha2 Hb2) as [E3 E4]. rewrite E3, E4.
    destruct x; try discriminate; try (split; reflexivity).
    apply andb_prop in Ha1. destruct Ha1 as [Ha1 _]. apply andb_prop in Ha1. destruct Ha1 as [_ Ha1].
    apply andb_prop in Hb1. destruct Hb1 as [Hb1 _]. apply andb_prop in Hb1. destruct Hb1 as [_ Hb1].
    destruct (Ht t' x Hf3 Ka1 Kb1 Ha1 Hb1) as [E1 E2]. cbv zeta. rewrite E1, E2. split; reflexivity.
Qed.

Lemma k3_forall_snd (es : list (N * bool * ty)) : k3free (TTab 0 es) = forallb (fun e => k3free (snd e)) es.
Proof. reflexivity. Qed.

Theorem fungible_wire : forall a, wire_same a.
Proof.
  induction a using ty_ind'.
  - (* scalar *)
    apply wire_same_stripped. intros b v Hs Hf Ka Kb Ha Hb. cbn [fungible] in Hf. rewrite Hs in Hf.
    destruct b; try discriminate. apply andb_prop in Hf. destruct Hf as [_ H2]. apply scalar_eqb_eq in H2. subst. split; reflexivity.
  - (* string *)
    apply wire_same_stripped. intros b v Hs Hf Ka Kb Ha Hb. cbn [fungible] in Hf. rewrite Hs in Hf.
    destruct b; try discriminate. apply N.eqb_eq in Hf. subst. split; reflexivity.
  - (* sequence *)
    apply wire_same_stripped. intros b v Hs Hf Ka Kb Ha Hb. cbn [fungible] in Hf. rewrite Hs in Hf.
    destruct (k3_seq _ _ Ka) as [Kt Rt].
    destruct b as [|?|cb tb|k' ts'| | | | | | |]; try discriminate.
    + (* sequence / sequence *)
      apply andb_prop in Hf. destruct Hf as [_ Hf]. destruct (k3_seq _ _ Kb) as [Ktb Rtb].
      assert (R : raw_kind a = raw_kind tb) by (rewrite Rt, Rtb; apply raw_kind_fungible, Hf).
      destruct v; cbn [has_type] in Ha, Hb; try discriminate.
      apply andb_prop in Ha. destruct Ha as [_ Ha]. apply andb_prop in Hb. destruct Hb as [_ Hb].
      cbn [spec_enc tsize]. rewrite R. destruct (raw_kind tb) as [[w sg]|]; [split; reflexivity|].
      destruct (wire_elems a tb IHa Hf Kt Ktb vs Ha Hb) as [E1 E2]. rewrite E1, E2. split; reflexivity.
    + (* sequence / tuple *)
      destruct k'; try discriminate.
      apply andb_prop in Hf. destruct Hf as [Hf Hf3]. apply andb_prop in Hf. destruct Hf as [Hf1 Hf2].
      apply negb_true_iff in Hf1. apply not_integral_raw in Hf1.
      destruct v; cbn [has_type] in Ha; try discriminate.
      apply andb_prop in Ha. destruct Ha as [_ Ha].
      destruct (wire_seq_tuple a IHa Kt ts' vs Hf3 Kb Ha Hb) as (L & E1 & E2).
      cbn [spec_enc tsize]. rewrite Hf1, E1, E2, (nlen_eq _ _ L). split; reflexivity.
  - (* tuple *)
    apply wire_same_stripped. intros b v Hs Hf Ka Kb Ha Hb. cbn [fungible] in Hf. rewrite Hs in Hf.
    destruct b as [|?|cb tb|k' ts'| | | | | | |]; try (destruct k; discriminate).
    + (* tuple / sequence *)
      destruct k; try discriminate.
      apply andb_prop in Hf. destruct Hf as [Hf Hf3]. apply andb_prop in Hf. destruct Hf as [Hf1 Hf2].
      apply negb_true_iff in Hf1. apply not_integral_raw in Hf1.
      destruct (k3_seq _ _ Kb) as [Ktb _].
      destruct v; cbn [has_type] in Hb; try (cbn [has_type] in Ha; discriminate).
      apply andb_prop in Hb. destruct Hb as [_ Hb].
      destruct (wire_tuple_seq tb ts H Ktb vs Hf3 Ka Ha Hb) as (L & E1 & E2).
      cbn [spec_enc tsize]. rewrite Hf1, E1, E2, (nlen_eq _ _ L). split; reflexivity.
    + (* tuple / tuple *)
      assert (Hf' : (match k, k' with KStruct, KStruct => true | KStruct, _ | _, KStruct => false | _, _ => true end) = true /\
                    (fix go (ts ts' : list ty) {struct ts} : bool :=
                       match ts, ts' with [], [] => true | x :: r, y :: r' => fungible x y && go r r' | _, _ => false end) ts ts' = true)
        by (destruct k; apply andb_prop in Hf; exact Hf).
      clear Hf. destruct Hf' as [Hk Hf].
      destruct v; try (cbn [has_type] in Ha; discriminate).
      destruct (wire_members ts H ts' vs Hf Ka Kb Ha Hb) as (L & E1 & E2).
      cbn [spec_enc tsize]. rewrite E1, E2, (nlen_eq _ _ L).
      destruct k, k'; try discriminate; split; reflexivity.
  - (* wrapper *)
    intros b v Hf Ka Kb Ha Hb. cbn [fungible] in Hf. destruct (id =? 0) eqn:E.
    + apply ty_eqb_eq in Hf. rewrite <- (spec_enc_strip b), <- (tsize_strip b), <- Hf. split; reflexivity.
    + cbn [spec_enc tsize]. exact (IHa b v Hf Ka Kb Ha Hb).
  - (* map *)
    apply wire_same_stripped. intros b v Hs Hf Ka Kb Ha Hb. cbn [fungible] in Hf. rewrite Hs in Hf.
    destruct b as [| | | | |u' kb vb| | | | |]; try discriminate.
    apply andb_prop in Hf. destruct Hf as [Hf1 Hf2].
    cbn [k3free] in Ka, Kb. apply andb_prop in Ka. apply andb_prop in Kb. destruct Ka as [Ka1 Ka2], Kb as [Kb1 Kb2].
    destruct v; cbn [has_type] in Ha, Hb; try discriminate.
    apply andb_prop in Ha. destruct Ha as [_ Ha]. apply andb_prop in Hb. destruct Hb as [_ Hb].
    cbn [spec_enc tsize].
    assert (E : flat_map (fun kv => spec_enc a1 (fst kv) ++ spec_enc a2 (snd kv)) kvs =
                flat_map (fun kv => spec_enc kb (fst kv) ++ spec_enc vb (snd kv)) kvs /\
                (fix go (kvs : list (val * val)) : N :=
                   match kvs with [] => 0 | (k, x) :: kvs' => tsize a1 k + tsize a2 x + go kvs' end) kvs =
                (fix go (kvs : list (val * val)) : N :=
                   match kvs with [] => 0 | (k, x) :: kvs' => tsize kb k + tsize vb x + go kvs' end) kvs).
    { clear - IHa1 IHa2 Hf1 Hf2 Ka1 Ka2 Kb1 Kb2 Ha Hb.
      induction kvs as [|[k x] kvs IH]; [split; reflexivity|].
      apply forallb_cons_inv in Ha. apply forallb_cons_inv in Hb. cbn [fst snd] in Ha, Hb.
      destruct Ha as [Ha1 Ha2], Hb as [Hb1 Hb2]. apply andb_prop in Ha1. apply andb_prop in Hb1.
      destruct Ha1 as [A1 A2], Hb1 as [B1 B2].
      destruct (IHa1 kb k Hf1 Ka1 Kb1 A1 B1) as [E1 E2]. destruct (IHa2 vb x Hf2 Ka2 Kb2 A2 B2) as [E3 E4].
      destruct (IH Ha2 Hb2) as [E5 E6]. cbn [flat_map fst snd]. rewrite E1, E2, E3, E4, E5, E6. split; reflexivity. }
    destruct E as [E1 E2]. rewrite E1, E2. split; reflexivity.
  - (* optional *)
    apply wire_same_stripped. intros b v Hs Hf Ka Kb Ha Hb. cbn [fungible] in Hf. rewrite Hs in Hf.
    destruct b as [| | | | | |tb| | | |]; try discriminate.
    destruct v; cbn [has_type] in Ha, Hb; try discriminate; cbn [spec_enc tsize]; [split; reflexivity|].
    exact (IHa tb v Hf Ka Kb Ha Hb).
  - (* result *)
    apply wire_same_stripped. intros b v Hs Hf Ka Kb Ha Hb. cbn [fungible] in Hf. rewrite Hs in Hf.
    destruct b as [| | | | | | |e' ek' tb| | |]; try discriminate.
    apply andb_prop in Hf. destruct Hf as [Hf Hf3]. apply andb_prop in Hf. destruct Hf as [_ Hf2].
    apply ikind_eqb_eq in Hf2. subst ek'.
    destruct v; cbn [has_type] in Ha, Hb; try discriminate; cbn [spec_enc tsize]; [split; reflexivity|].
    exact (IHa tb v Hf3 Ka Kb Ha Hb).
  - (* variant *)
    apply wire_same_stripped. intros b v Hs Hf Ka Kb Ha Hb. cbn [fungible] in Hf. rewrite Hs in Hf.
    destruct b as [| | | | | | | |ts'| |]; try discriminate.
    destruct v; cbn [has_type] in Ha, Hb; try discriminate; cbn [spec_enc tsize]; [|split; reflexivity].
    apply andb_prop in Ha. destruct Ha as [_ Ha]. apply andb_prop in Hb. destruct Hb as [_ Hb].
    destruct (wire_alts ts H ts' (Z.to_nat i) v Hf Ka Kb Ha Hb) as [E1 E2]. rewrite E1, E2. split; reflexivity.
  - (* handle *)
    apply wire_same_stripped. intros b v Hs Hf Ka Kb Ha Hb. cbn [fungible] in Hf. rewrite Hs in Hf.
    destruct b as [| | | | | | | | |p' tk' z'|]; try discriminate.
    apply andb_prop in Hf. destruct Hf as [Hf Hf3]. apply andb_prop in Hf. destruct Hf as [_ Hf2].
    apply ikind_eqb_eq in Hf2. apply Z.eqb_eq in Hf3. subst. split; reflexivity.
  - (* table *)
    apply wire_same_stripped. intros b v Hs Hf Ka Kb Ha Hb. cbn [fungible] in Hf. rewrite Hs in Hf.
    destruct b as [| | | | | | | | | |h' es']; try discriminate.
    apply andb_prop in Hf. destruct Hf as [Hh Hf]. apply N.eqb_eq in Hh. subst h'.
    destruct v as [| | | | | | | | | |xs]; cbn [has_type] in Ha, Hb; try discriminate.
    destruct (wire_entries es H es' xs Hf Ka Kb Ha Hb) as [E1 E2].
    cbn [spec_enc tsize]. split; [do 3 f_equal; exact E1|f_equal; exact E2].
Qed.

(* the property's clause: bytes written as A are read as B *)
Corollary fungible_same_bytes a b v :
  fungible a b = true -> k3free a = true -> k3free b = true ->
  has_type a v = true -> has_type b v = true -> spec_enc a v = spec_enc b v.
Proof. intros Hf Ka Kb Ha Hb. exact (proj1 (fungible_wire a b v Hf Ka Kb Ha Hb)). Qed.

(* ====================== IsFungible<A,B> = IsFungible<B,A> =============================== *)
Lemma ty_eqb_sym a b : ty_eqb a b = ty_eqb b a.
Proof.
  destruct (ty_eqb a b) eqn:E1, (ty_eqb b a) eqn:E2; try reflexivity.
  - apply ty_eqb_eq in E1. subst. rewrite ty_eqb_refl in E2. discriminate.
  - apply ty_eqb_eq in E2. subst. rewrite ty_eqb_refl in E1. discriminate.
Qed.

Lemma fungible_strip_l : forall a b, fungible a b = fungible (strip a) b.
Proof.
  induction a; intros b; cbn [strip]; try reflexivity.
  destruct (id =? 0) eqn:E; [reflexivity|]. cbn [fungible]. rewrite E. apply IHa.
Qed.

Lemma seq_rule_sym c d : seq_rule c d = seq_rule d c.
Proof. destruct c, d; cbn; try reflexivity; apply N.eqb_sym. Qed.
Lemma ikind_eqb_sym a b : ikind_eqb a b = ikind_eqb b a.
Proof. destruct a, b; reflexivity. Qed.
Lemma scalar_eqb_sym a b : scalar_eqb a b = scalar_eqb b a.
Proof. destruct a, b; cbn; try reflexivity. apply ikind_eqb_sym. Qed.
Lemma bool_eqb_sym a b : Bool.eqb a b = Bool.eqb b a.
Proof. destruct a, b; reflexivity. Qed.

(* what [strip] returns is never a NOP_VALUE wrapper (only reference_wrapper, id 0, stops it) *)
Lemma strip_not_wrap : forall u id t, strip u = TWrap id t -> (id =? 0) = true.
Proof.
  induction u; intros i t H; cbn [strip] in H; try discriminate.
  destruct (id =? 0) eqn:E; [|exact (IHu i t H)]. injection H as <- _. exact E.
Qed.

Definition fsym (a : ty) : Prop := forall b, fungible a b = fungible b a.

Lemma forallb_ext_in {A} (f g : A -> bool) l : (forall x, In x l -> f x = g x) -> forallb f l = forallb g l.
Proof. induction l as [|x l IH]; intros H; [reflexivity|]. cbn. rewrite (H x (or_introl eq_refl)), IH; [reflexivity|]. intros y Hy. apply H. right. exact Hy. Qed.

Lemma members_sym ts : Forall fsym ts -> forall ts',
  (fix go (ts ts' : list ty) {struct ts} : bool :=
     match ts, ts' with [], [] => true | x :: r, y :: r' => fungible x y && go r r' | _, _ => false end) ts ts' =
  (fix go (ts ts' : list ty) {struct ts} : bool :=
     match ts, ts' with [], [] => true | x :: r, y :: r' => fungible x y && go r r' | _, _ => false end) ts' ts.
Proof.
  intros H. induction H as [|t ts Ht _ IH]; intros [|t' ts']; try reflexivity.
  rewrite (Ht t'), (IH ts'). reflexivity.
Qed.

Lemma entries_sym es : Forall (fun e => fsym (snd e)) es -> forall es',
  (fix go (es es' : list (N * bool * ty)) {struct es} : bool :=
     match es, es' with
     | [], [] => true
     | (i, a1, x) :: r, (j, a2, y) :: r' => (i =? j) && Bool.eqb a1 a2 && fungible x y && go r r'
     | _, _ => false
     end) es es' =
  (fix go (es es' : list (N * bool * ty)) {struct es} : bool :=
     match es, es' with
     | [], [] => true
     | (i, a1, x) :: r, (j, a2, y) :: r' => (i =? j) && Bool.eqb a1 a2 && fungible x y && go r r'
     | _, _ => false
     end) es' es.
Proof.
  intros H. induction H as [|[[i a] t] es Ht _ IH]; intros [|[[j a'] t'] es']; try reflexivity.
  cbn [snd] in Ht. rewrite (Ht t'), (IH es'), (N.eqb_sym i j), (bool_eqb_sym a a'). reflexivity.
Qed.

Ltac sym_prep b :=
  rewrite (fungible_strip_r _ b), (fungible_strip_l b _);
  let Hw := fresh "Hw" in pose proof (strip_not_wrap b) as Hw;
  destruct (strip b) as [c' s'|cw'|cb tb|k' ts'|id' tb|u' kb vb|tb|e' ek' tb|ts'|p' tk' z'|h' es'];
  try (specialize (Hw _ _ eq_refl)); cbn [fungible strip ty_eqb]; try rewrite Hw; try reflexivity;
  try (match goal with |- false = match ?k with KPair => _ | _ => _ end => destruct k; reflexivity end).

Theorem fungible_sym : forall a, fsym a.
Proof.
  induction a using ty_ind'; intros b.
  - (* scalar *) sym_prep b. rewrite N.eqb_sym, scalar_eqb_sym. reflexivity.
  - (* string *) sym_prep b. apply N.eqb_sym.
  - (* sequence *)
    sym_prep b.
    + rewrite seq_rule_sym, (IHa tb). reflexivity.
    + destruct k'; try reflexivity.
      f_equal. apply forallb_ext_in. intros x _. apply IHa.
  - (* tuple *)
    sym_prep b; try (destruct k; reflexivity).
    + destruct k; try reflexivity.
      f_equal. apply forallb_ext_in. intros x Hx. rewrite Forall_forall in H. apply (H x Hx).
    + rewrite (members_sym ts H ts'). destruct k, k'; reflexivity.
  - (* wrapper *)
    cbn [fungible]. destruct (id =? 0) eqn:E.
    + (* reference_wrapper: identical types only *)
      rewrite (fungible_strip_l b _).
      pose proof (strip_not_wrap b) as Hw.
      destruct (strip b) as [c' s'|cw'|cb tb|k' ts'|id' tb|u' kb vb|tb|e' ek' tb|ts'|p' tk' z'|h' es'] eqn:Eb;
        try (specialize (Hw _ _ eq_refl)); cbn [fungible strip ty_eqb]; rewrite ?E, ?Hw; try reflexivity.
      * destruct k'; reflexivity.
      * rewrite N.eqb_sym, (ty_eqb_sym a tb). reflexivity.
    + rewrite (IHa b). rewrite (fungible_strip_r b (TWrap id a)). cbn [strip]. rewrite E.
      rewrite <- (fungible_strip_r b a). reflexivity.
  - (* map *) sym_prep b. rewrite (IHa1 kb), (IHa2 vb). reflexivity.
  - (* optional *) sym_prep b. apply IHa.
  - (* result *) sym_prep b. rewrite (IHa tb), N.eqb_sym, ikind_eqb_sym. reflexivity.
  - (* variant *) sym_prep b. apply (members_sym ts H ts').
  - (* handle *) sym_prep b. rewrite N.eqb_sym, ikind_eqb_sym, Z.eqb_sym. reflexivity.
  - (* table *) sym_prep b. rewrite N.eqb_sym, (entries_sym es H es'). reflexivity.
Qed.
