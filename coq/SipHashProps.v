(* SipHashProps.v — nop::SipHash::Compute computes standard SipHash-2-4. *)
From Nop Require Import Base SipHash.
Local Open Scope N_scope.

(* the 64 reference vectors, on the specification and on the transcription *)
Lemma ref_vectors_spec :
  map (fun i => siphash_spec ref_k0 ref_k1 (ref_message i)) (seq 0 64) = ref_vectors.
Proof. vm_compute. reflexivity. Qed.

Lemma ref_vectors_nop :
  map (fun i => nop_siphash ref_k0 ref_k1 (ref_message i)) (seq 0 64) = ref_vectors.
Proof. vm_compute. reflexivity. Qed.

(* ---- or of disjoint bit ranges is addition ---------------------------------------- *)
Lemma lor_shiftl_add a b k : a < 2 ^ k -> N.lor a (N.shiftl b k) = a + b * 2 ^ k.
Proof.
  intros Ha. rewrite N.shiftl_mul_pow2.
  assert (Hl : N.land a (b * 2 ^ k) = 0).
  { apply N.bits_inj. intros i. rewrite N.land_spec, N.bits_0.
    destruct (N.lt_ge_cases i k) as [Hi|Hi].
    - rewrite N.mul_pow2_bits_low by exact Hi. apply andb_false_r.
    - replace (N.testbit a i) with false; [reflexivity|]. symmetry.
      destruct (N.eq_0_gt_0_cases a) as [->|Hp]; [apply N.bits_0|].
      apply N.bits_above_log2. apply N.log2_lt_pow2 in Ha; [lia|exact Hp]. }
  rewrite <- N.lxor_lor by exact Hl. symmetry. apply N.add_nocarry_lxor. exact Hl.
Qed.

(* acc = hi << 8(l+1); or-ing elem << 8l gives (elem + 256 hi) << 8l *)
Lemma chain_step hi b l : b < 256 ->
  N.lor (N.shiftl hi (8 * N.of_nat (S l))) (N.shiftl b (8 * N.of_nat l)) =
  N.shiftl (b + 256 * hi) (8 * N.of_nat l).
Proof.
  intros Hb. replace (8 * N.of_nat (S l)) with (8 + 8 * N.of_nat l) by lia.
  rewrite <- N.shiftl_shiftl, <- N.shiftl_lor, N.lor_comm.
  rewrite (lor_shiftl_add b hi 8) by (cbn; lia). f_equal. change (2 ^ 8) with 256. lia.
Qed.

Lemma le_val_app (a b : bytes) : le_val (a ++ b) = le_val a + 256 ^ N.of_nat (length a) * le_val b.
Proof.
  induction a as [|x a IH]; cbn [app le_val length].
  - change (N.of_nat 0) with 0. rewrite N.pow_0_r. lia.
  - rewrite IH, Nat2N.inj_succ, N.pow_succ_r'. lia.
Qed.

Lemma or_down_spec (get : nat -> N) n : (forall i, (i < n)%nat -> get i < 256) -> forall hi,
  or_down get n (N.shiftl hi (8 * N.of_nat n)) = le_val (map get (seq 0 n)) + hi * 256 ^ N.of_nat n.
Proof.
  induction n as [|l IH]; intros Hg hi.
  - cbn. rewrite N.shiftl_0_r. lia.
  - cbn [or_down]. rewrite chain_step by (apply Hg; lia).
    rewrite IH by (intros; apply Hg; lia).
    rewrite seq_S, map_app, le_val_app, map_length, seq_length. cbn [map le_val Nat.add].
    rewrite Nat2N.inj_succ, N.pow_succ_r'. lia.
Qed.

Lemma nth_byte (bs : bytes) i : all_bytes bs = true -> nth i bs 0 < 256.
Proof.
  intros H. unfold all_bytes in H. rewrite forallb_forall in H.
  destruct (Nat.lt_ge_cases i (length bs)) as [L|L].
  - specialize (H (nth i bs 0) (nth_In bs 0 L)). unfold is_byte in H. apply N.ltb_lt. exact H.
  - rewrite nth_overflow by exact L. lia.
Qed.

Lemma map_nth_seq (bs : bytes) off n : (off + n <= length bs)%nat ->
  map (fun i => nth (off + i) bs 0) (seq 0 n) = firstn n (skipn off bs).
Proof.
  revert bs. induction off as [|off IH]; intros bs H.
  - cbn [skipn Nat.add]. revert bs H. induction n as [|n IHn]; intros bs H; [reflexivity|].
    destruct bs as [|b bs]; [cbn in H; lia|]. cbn [firstn]. rewrite <- (IHn bs) by (cbn in H; lia).
    cbn [seq map nth]. f_equal. rewrite <- seq_shift, map_map. reflexivity.
  - destruct bs as [|b bs]; [cbn in H; lia|]. cbn [skipn]. rewrite <- (IH bs) by (cbn in H; lia).
    apply map_ext. intros i. reflexivity.
Qed.

(* ReadBlock is the little-endian value of the eight bytes at the offset *)
Lemma read_block_le (bs : bytes) off : all_bytes bs = true -> (off + 8 <= length bs)%nat ->
  read_block bs off = le_val (firstn 8 (skipn off bs)).
Proof.
  intros Hb Hl. unfold read_block.
  change 56 with (8 * N.of_nat 7).
  rewrite (or_down_spec (fun i => nth (off + i) bs 0) 7) by (intros; apply nth_byte, Hb).
  rewrite <- (map_nth_seq bs off 8 Hl).
  change (seq 0 8) with (seq 0 7 ++ [7%nat]). rewrite map_app, le_val_app, map_length, seq_length.
  cbn [map le_val]. lia.
Qed.

(* the word built from the left-over bytes and the length *)
Lemma tail_word (m : bytes) : all_bytes m = true ->
  let left := (length m mod 8)%nat in
  let endoff := (length m - left)%nat in
  tail_or m endoff left (mask64 (N.shiftl (N.of_nat (length m)) 56)) =
  le_val (skipn endoff m ++ repeat 0 (7 - left)%nat ++ [N.of_nat (length m) mod 256]).
Proof.
  intros Hb left endoff.
  assert (Hleft : (left < 8)%nat) by (apply Nat.mod_upper_bound; lia).
  assert (Hend : (endoff + left = length m)%nat).
  { unfold endoff. pose proof (Nat.mod_le (length m) 8). unfold left in *. lia. }
  set (L := N.of_nat (length m) mod 256).
  assert (Hm : mask64 (N.shiftl (N.of_nat (length m)) 56) =
               N.shiftl (L * 256 ^ N.of_nat (7 - left)) (8 * N.of_nat left)).
  { unfold mask64, two64, L. rewrite !N.shiftl_mul_pow2.
    replace (N.of_nat (length m) * 2 ^ 56) with (2 ^ 56 * N.of_nat (length m)) by lia.
    change 18446744073709551616 with (2 ^ 56 * 256).
    rewrite N.mul_mod_distr_l by lia.
    replace (256 ^ N.of_nat (7 - left)) with (2 ^ (8 * N.of_nat (7 - left)))
      by (rewrite N.pow_mul_r; reflexivity).
    rewrite <- N.mul_assoc, <- N.pow_add_r.
    replace (8 * N.of_nat (7 - left) + 8 * N.of_nat left) with 56 by lia. lia. }
  unfold tail_or. rewrite Hm.
  rewrite or_down_spec by (intros; apply nth_byte, Hb).
  rewrite (map_nth_seq m endoff left) by lia.
  assert (Hs : firstn left (skipn endoff m) = skipn endoff m).
  { apply firstn_all2. rewrite skipn_length. lia. }
  rewrite Hs, le_val_app, le_val_app, skipn_length, repeat_length.
  replace (length m - endoff)%nat with left by lia.
  assert (Hz : forall n, le_val (repeat 0 n) = 0) by (induction n; cbn [repeat le_val]; lia).
  rewrite Hz. cbn [le_val]. set (A := 256 ^ N.of_nat (7 - left)). set (B := 256 ^ N.of_nat left). nia.
Qed.

Lemma skipn_skipn_add {A} (a b : nat) (l : list A) : skipn a (skipn b l) = skipn (b + a) l.
Proof.
  revert l; induction b as [|b IH]; intros l; cbn [skipn Nat.add]; [reflexivity|].
  destruct l as [|x l]; [destruct a; reflexivity|apply IH].
Qed.

(* ---- the block loop and the word list of the padded message --------------------------- *)
Lemma block_loop_fold (m : bytes) : all_bytes m = true -> forall n off s,
  (off + 8 * n <= length m)%nat ->
  block_loop m n off s =
  fold_left sip_compress (map (fun j => le_val (firstn 8 (skipn (off + 8 * j) m))) (seq 0 n)) s.
Proof.
  intros Hb. induction n as [|n IH]; intros off s Hl; cbn [block_loop seq map fold_left]; [reflexivity|].
  rewrite IH by lia. rewrite (read_block_le m off Hb) by lia.
  rewrite Nat.mul_0_r, Nat.add_0_r. f_equal.
  rewrite <- seq_shift, map_map. apply map_ext. intros j. do 3 f_equal. lia.
Qed.

Lemma words_of_spec k : forall (p : bytes) fuel, length p = (8 * k)%nat -> (k <= fuel)%nat ->
  words_of fuel p = map (fun j => le_val (firstn 8 (skipn (8 * j) p))) (seq 0 k).
Proof.
  induction k as [|k IH]; intros p fuel Hl Hf.
  - destruct p; [|discriminate]. destruct fuel; reflexivity.
  - destruct fuel as [|fuel]; [lia|]. cbn [words_of]. destruct p as [|x p]; [discriminate|].
    cbn [seq map]. rewrite Nat.mul_0_r. change (skipn 0 (x :: p)) with (x :: p). f_equal.
    rewrite (IH (skipn 8 (x :: p)) fuel) by (rewrite ?skipn_length; lia).
    rewrite <- seq_shift, map_map. apply map_ext. intros j. do 2 f_equal.
    rewrite skipn_skipn_add. f_equal. lia.
Qed.

(* ---- the header computes standard SipHash-2-4 ------------------------------------------- *)
Theorem nop_siphash_correct k0 k1 (m : bytes) : all_bytes m = true ->
  nop_siphash k0 k1 m = siphash_spec k0 k1 m.
Proof.
  intros Hb. unfold nop_siphash, siphash_spec.
  set (left := (length m mod 8)%nat). set (endoff := (length m - left)%nat).
  assert (Hleft : (left < 8)%nat) by (apply Nat.mod_upper_bound; lia).
  pose proof (Nat.div_mod (length m) 8 ltac:(lia)) as Hdm. fold left in Hdm.
  set (n := (length m / 8)%nat) in *.
  assert (Hend : endoff = (8 * n)%nat) by (unfold endoff; lia).
  assert (Hn : (endoff / 8 = n)%nat) by (rewrite Hend, Nat.mul_comm; apply Nat.div_mul; lia).
  rewrite Hn.
  set (pad := repeat 0 (7 - left)%nat ++ [N.of_nat (length m) mod 256]).
  assert (Hp : sip_padded m = m ++ pad) by reflexivity.
  assert (Hlp : length (sip_padded m) = (8 * S n)%nat).
  { rewrite Hp. unfold pad. rewrite !app_length, repeat_length. cbn [length]. lia. }
  rewrite Hlp. rewrite (words_of_spec (S n) (sip_padded m) (8 * S n) Hlp) by lia.
  rewrite seq_S, map_app, fold_left_app. cbn [map fold_left Nat.add].
  f_equal. f_equal.
  - (* the full blocks *)
    rewrite (block_loop_fold m Hb n 0) by lia. f_equal. apply map_ext_in. intros j Hj.
    apply in_seq in Hj. cbn [Nat.add]. f_equal. rewrite Hp. symmetry.
    rewrite skipn_app. replace (8 * j - length m)%nat with 0%nat by lia. cbn [skipn].
    rewrite firstn_app. replace (8 - length (skipn (8 * j) m))%nat with 0%nat by (rewrite skipn_length; lia).
    cbn [firstn]. rewrite app_nil_r. reflexivity.
  - (* the last word *)
    pose proof (tail_word m Hb) as T. cbn zeta in T. fold left endoff in T. rewrite T. f_equal.
    rewrite Hp, <- Hend. rewrite skipn_app. replace (endoff - length m)%nat with 0%nat by lia. cbn [skipn].
    symmetry. apply firstn_all2. unfold pad. rewrite !app_length, skipn_length, repeat_length. cbn [length]. lia.
Qed.
