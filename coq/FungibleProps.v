(* FungibleProps.v — properties of the IsFungible transcription. *)
From Nop Require Import Spec Sim Fungible.
Local Open Scope N_scope.

Lemma ikind_eqb_refl k : ikind_eqb k k = true. Proof. destruct k; reflexivity. Qed.
Lemma scalar_eqb_refl s : scalar_eqb s s = true.
Proof. destruct s; cbn; auto using ikind_eqb_refl. Qed.
Lemma tupk_eqb_refl k : tupk_eqb k k = true. Proof. destruct k; reflexivity. Qed.
Lemma seqc_eqb_refl c : seqc_eqb c c = true.
Proof. destruct c; cbn; rewrite ?eqb_reflx, ?N.eqb_refl, ?ikind_eqb_refl; reflexivity. Qed.

Lemma ty_eqb_refl : forall t, ty_eqb t t = true.
Proof.
  induction t using ty_ind'; cbn [ty_eqb];
    rewrite ?N.eqb_refl, ?scalar_eqb_refl, ?seqc_eqb_refl, ?tupk_eqb_refl, ?eqb_reflx, ?ikind_eqb_refl, ?Z.eqb_refl;
    cbn [andb]; auto.
  - induction H as [|x r Hx _ IH]; [reflexivity|]. rewrite Hx, IH. reflexivity.
  - rewrite IHt1, IHt2. reflexivity.
  - induction H as [|x r Hx _ IH]; [reflexivity|]. rewrite Hx, IH. reflexivity.
  - induction H as [|[[i a] x] r Hx _ IH]; [reflexivity|]. cbn [snd] in Hx.
    rewrite N.eqb_refl, eqb_reflx, Hx, IH. reflexivity.
Qed.

Lemma strip_idem t : strip (strip t) = strip t.
Proof.
  induction t; cbn [strip]; try reflexivity.
  destruct (id =? 0) eqn:E; [cbn [strip]; rewrite E; reflexivity|exact IHt].
Qed.

(* NOP_VALUE wrappers on the right-hand side are looked through *)
Lemma fungible_strip_r : forall a b, fungible a b = fungible a (strip b).
Proof.
  induction a; intros b; cbn [fungible]; rewrite ?strip_idem; try reflexivity.
  destruct (id =? 0); [reflexivity|apply IHa].
Qed.

Lemma seq_rule_refl c : seq_rule c c = true.
Proof. destruct c; cbn; rewrite ?N.eqb_refl; reflexivity. Qed.

Lemma strip_nonwrap t : (forall id t', t <> TWrap id t') -> strip t = t.
Proof. destruct t; intros H; try reflexivity. exfalso. eapply H. reflexivity. Qed.

Theorem fungible_refl : forall t, fungible t t = true.
Proof.
  induction t using ty_ind'; cbn [fungible strip];
    rewrite ?N.eqb_refl, ?scalar_eqb_refl, ?seq_rule_refl, ?ikind_eqb_refl, ?Z.eqb_refl; cbn [andb]; auto.
  - (* tuple *)
    assert (G : (fix go (ts ts' : list ty) {struct ts} : bool :=
                   match ts, ts' with
                   | [], [] => true
                   | x :: r, y :: r' => fungible x y && go r r'
                   | _, _ => false
                   end) ts ts = true).
    { induction H as [|x r Hx _ IH]; [reflexivity|]. rewrite Hx, IH. reflexivity. }
    rewrite G. destruct k; reflexivity.
  - (* wrapper *)
    destruct (id =? 0) eqn:E.
    + apply ty_eqb_refl.
    + rewrite fungible_strip_r. cbn [strip]. rewrite E. rewrite <- fungible_strip_r. exact IHt.
  - (* map *) rewrite IHt1, IHt2. reflexivity.
  - (* variant *)
    induction H as [|x r Hx _ IH]; [reflexivity|]. rewrite Hx, IH. reflexivity.
  - (* table *)
    induction H as [|[[i a] x] r Hx _ IH]; [reflexivity|]. cbn [snd] in Hx.
    rewrite N.eqb_refl, eqb_reflx, Hx, IH. reflexivity.
Qed.

(* a value wrapper and the wrapped type are fungible, in both positions *)
Theorem fungible_wrapper id t : id <> 0 ->
  fungible (TWrap id t) t = true /\ fungible t (TWrap id t) = true.
Proof.
  intros H. split.
  - cbn [fungible]. rewrite (proj2 (N.eqb_neq _ _) H). apply fungible_refl.
  - rewrite fungible_strip_r. cbn [strip]. rewrite (proj2 (N.eqb_neq _ _) H).
    rewrite <- fungible_strip_r. apply fungible_refl.
Qed.

(* the pairs the documentation declares fungible, reduced to the elements *)
Theorem fungible_vector_array t ca n :
  fungible (TSeq CVec t) (TSeq (CArr ca n) t) = true /\ fungible (TSeq (CArr ca n) t) (TSeq CVec t) = true.
Proof. cbn [fungible strip seq_rule andb]. rewrite fungible_refl. auto. Qed.

Theorem fungible_array_carray t n :
  fungible (TSeq (CArr false n) t) (TSeq (CArr true n) t) = true.
Proof. cbn [fungible strip seq_rule]. rewrite N.eqb_refl, fungible_refl. reflexivity. Qed.

Theorem fungible_pair_tuple a b :
  fungible (TTuple KPair [a; b]) (TTuple KTuple [a; b]) = true /\
  fungible (TTuple KTuple [a; b]) (TTuple KPair [a; b]) = true.
Proof. cbn [fungible strip]. rewrite !fungible_refl. auto. Qed.

Theorem fungible_map_unordered k v u u' : fungible (TMap u k v) (TMap u' k v) = true.
Proof. cbn [fungible strip]. rewrite !fungible_refl. reflexivity. Qed.

Theorem fungible_lbuf_vector t ca cap sk unb :
  fungible (TSeq (CLBuf ca cap sk unb) t) (TSeq CVec t) = true /\
  fungible (TSeq CVec t) (TSeq (CLBuf ca cap sk unb) t) = true.
Proof. cbn [fungible strip seq_rule andb]. rewrite fungible_refl. auto. Qed.

Theorem fungible_vector_tuple t ts : is_integral t = false ->
  Forall (fun x => fungible t x = true) ts ->
  fungible (TSeq CVec t) (TTuple KTuple ts) = true.
Proof.
  intros Hi H. cbn [fungible strip]. rewrite Hi. cbn [negb andb].
  apply forallb_forall. rewrite Forall_forall in H. exact H.
Qed.

(* Finding K3: IsFungible holds but one side is a BIN and the other an ARY container *)
Theorem fungible_K3 :
  let a := TSeq CVec (TScalar 0 (SInt I32)) in
  let b := TSeq CVec (TWrap 1 (TScalar 0 (SInt I32))) in
  let v := VSeq [VInt 7] in
  fungible a b = true /\ has_type a v = true /\ has_type b v = true /\ spec_enc a v <> spec_enc b v.
Proof. vm_compute. repeat split; try reflexivity. discriminate. Qed.
