(* TableProps.v — consequences of table_read_spec for C08 (framing) and C07
   (versions). *)
From Nop Require Import Spec Sim EncSpec ScalarRT DecSpec Readers Lang TableSpec.
From Coq Require Import Permutation.
Local Open Scope N_scope.

(* ---- the slot an id designates ------------------------------------------------------ *)
(* [slot_of es slots id] = Some (active, type, current slot) for a declared id *)
Fixpoint slot_of (es : list (N * bool * ty)) (slots : list val) (id : N) : option (bool * ty * val) :=
  match es, slots with
  | (eid, act, t') :: es', sl :: slots' =>
      if eid =? id then Some (act, t', sl) else slot_of es' slots' id
  | _, _ => None
  end.

Lemma apply_entry_unknown es slots e : slot_of es slots (w_id e) = None -> apply_entry es slots e = inl slots.
Proof.
  revert slots. induction es as [|[[eid act] t'] es IH]; intros [|sl slots] H; cbn in *; try reflexivity.
  destruct (eid =? w_id e); [discriminate|]. rewrite (IH _ H). reflexivity.
Qed.

Lemma apply_entry_deleted es slots e t' sl :
  slot_of es slots (w_id e) = Some (false, t', sl) -> apply_entry es slots e = inl slots.
Proof.
  revert slots. induction es as [|[[eid act] t0] es IH]; intros [|s0 slots] H; cbn in *; try discriminate.
  destruct (eid =? w_id e).
  - injection H as -> -> ->. reflexivity.
  - rewrite (IH _ H). reflexivity.
Qed.

(* a recognised active id that already holds a value: DuplicateTableEntry *)
Lemma apply_entry_dup es slots e t' y :
  slot_of es slots (w_id e) = Some (true, t', VSome y) -> apply_entry es slots e = inr EDupEntry.
Proof.
  revert slots. induction es as [|[[eid act] t0] es IH]; intros [|s0 slots] H; cbn in *; try discriminate.
  destruct (eid =? w_id e).
  - injection H as -> -> ->. reflexivity.
  - rewrite (IH _ H). reflexivity.
Qed.

(* an error while decoding inside the entry's frame is the result of the read *)
Lemma apply_entry_inner_error es slots e t' c l :
  slot_of es slots (w_id e) = Some (true, t', VNone) -> dec t' lr_ops (w_body e) = Err c l ->
  apply_entry es slots e = inr c.
Proof.
  revert slots. induction es as [|[[eid act] t0] es IH]; intros [|s0 slots] H Hd; cbn in *; try discriminate.
  destruct (eid =? w_id e).
  - injection H as -> -> ->. rewrite Hd. reflexivity.
  - rewrite (IH _ H Hd). reflexivity.
Qed.

(* set the slot of an id *)
Fixpoint set_slot (es : list (N * bool * ty)) (slots : list val) (id : N) (v : val) : list val :=
  match es, slots with
  | (eid, _, _) :: es', sl :: slots' =>
      if eid =? id then v :: slots' else sl :: set_slot es' slots' id v
  | _, _ => slots
  end.

Lemma apply_entry_value es slots e t' y pad :
  slot_of es slots (w_id e) = Some (true, t', VNone) -> dec t' lr_ops (w_body e) = Ok y pad ->
  apply_entry es slots e = inl (set_slot es slots (w_id e) (VSome y)).
Proof.
  revert slots. induction es as [|[[eid act] t0] es IH]; intros [|s0 slots] H Hd; cbn in *; try discriminate.
  destruct (eid =? w_id e).
  - injection H as -> -> ->. rewrite Hd. reflexivity.
  - rewrite (IH _ H Hd). reflexivity.
Qed.

Lemma slot_of_set_same es slots id v a t' sl :
  slot_of es slots id = Some (a, t', sl) -> slot_of es (set_slot es slots id v) id = Some (a, t', v).
Proof.
  revert slots. induction es as [|[[eid act] t0] es IH]; intros [|s0 slots] H; cbn in *; try discriminate.
  destruct (eid =? id) eqn:E; cbn; rewrite ?E.
  - injection H as -> -> ->. reflexivity.
  - apply IH, H.
Qed.

Lemma slot_of_set_other es slots id id' v : id <> id' ->
  slot_of es (set_slot es slots id v) id' = slot_of es slots id'.
Proof.
  intros Hne. revert slots. induction es as [|[[eid act] t0] es IH]; intros [|s0 slots]; cbn; try reflexivity.
  destruct (eid =? id) eqn:E; cbn.
  - apply N.eqb_eq in E. subst eid. rewrite (proj2 (N.eqb_neq _ _) Hne). reflexivity.
  - destruct (eid =? id'); [reflexivity|apply IH].
Qed.

(* every successful step: unknown id, deleted id, or one empty slot filled *)
Lemma apply_entry_cases es slots e s' : apply_entry es slots e = inl s' ->
  (slot_of es slots (w_id e) = None /\ s' = slots) \/
  (exists t' sl, slot_of es slots (w_id e) = Some (false, t', sl) /\ s' = slots) \/
  (exists t' y pad, slot_of es slots (w_id e) = Some (true, t', VNone) /\
                    dec t' lr_ops (w_body e) = Ok y pad /\
                    s' = set_slot es slots (w_id e) (VSome y)).
Proof.
  revert slots s'. induction es as [|[[eid act] t0] es IH]; intros [|s0 slots] s' H; cbn in *;
    try (injection H as <-; left; auto; fail).
  destruct (eid =? w_id e) eqn:E.
  - destruct act.
    + destruct s0; try discriminate. destruct (dec t0 lr_ops (w_body e)) as [y pad|c l] eqn:Ed; [|discriminate].
      injection H as <-. right. right. exists t0, y, pad. auto.
    + injection H as <-. right. left. eauto.
  - destruct (apply_entry es slots e) as [r|c] eqn:Ea; [|discriminate]. injection H as <-.
    destruct (IH _ _ Ea) as [[H1 ->]|[(t' & sl & H1 & ->)|(t' & y & pad & H1 & H2 & ->)]].
    + left. auto.
    + right. left. eauto.
    + right. right. exists t', y, pad. auto.
Qed.

(* ---- C08: a repeated recognised active id is DuplicateTableEntry ---------------------- *)
Lemma filled_stays es slots e s' id t' y :
  slot_of es slots id = Some (true, t', VSome y) -> apply_entry es slots e = inl s' ->
  slot_of es s' id = Some (true, t', VSome y).
Proof.
  intros Hf Ha.
  destruct (apply_entry_cases _ _ _ _ Ha) as [[_ ->]|[(t1 & sl & _ & ->)|(t1 & y1 & pad & H1 & H2 & ->)]];
    [exact Hf|exact Hf|].
  destruct (N.eq_dec (w_id e) id) as [E|E].
  - rewrite E, Hf in H1. discriminate.
  - rewrite (slot_of_set_other _ _ _ _ _ E). exact Hf.
Qed.

Theorem duplicate_rejected es slots (e1 : went) (mid : list went) (e2 : went) post t' y pad s1 s2 :
  w_id e2 = w_id e1 ->
  slot_of es slots (w_id e1) = Some (true, t', VNone) ->
  dec t' lr_ops (w_body e1) = Ok y pad ->
  apply_entry es slots e1 = inl s1 ->
  apply_entries es s1 mid = inl s2 ->          (* no other error before the second occurrence *)
  apply_entries es slots (e1 :: mid ++ e2 :: post) = inr EDupEntry.
Proof.
  intros Hid Hs Hd H1 H2. cbn [apply_entries]. rewrite H1.
  assert (Hf1 : slot_of es s1 (w_id e1) = Some (true, t', VSome y)).
  { rewrite (apply_entry_value _ _ _ _ _ _ Hs Hd) in H1. injection H1 as <-.
    apply (slot_of_set_same _ _ _ _ _ _ _ Hs). }
  clear H1 Hs. revert s1 s2 H2 Hf1. induction mid as [|m mid IH]; intros s1 s2 H2 Hf1; cbn [app apply_entries] in *.
  - injection H2 as <-. rewrite (apply_entry_dup es s1 e2 t' y); [reflexivity|]. rewrite Hid. exact Hf1.
  - destruct (apply_entry es s1 m) as [s'|c] eqn:Em; [|discriminate].
    apply (IH s' s2 H2). apply (filled_stays _ _ _ _ _ _ _ Hf1 Em).
Qed.

(* ---- C08: entries are accepted in any order --------------------------------------------- *)
Lemma set_slot_comm es slots i j a b : i <> j ->
  set_slot es (set_slot es slots i a) j b = set_slot es (set_slot es slots j b) i a.
Proof.
  intros Hne. revert slots. induction es as [|[[eid act] t0] es IH]; intros [|s0 slots]; cbn; try reflexivity.
  destruct (eid =? i) eqn:Ei, (eid =? j) eqn:Ej; cbn; rewrite ?Ei, ?Ej; try reflexivity.
  - apply N.eqb_eq in Ei, Ej. subst. contradiction.
  - rewrite IH. reflexivity.
Qed.

Lemma apply_entry_swap es slots e1 e2 s :
  w_id e1 <> w_id e2 ->
  (match apply_entry es slots e1 with inl s1 => apply_entry es s1 e2 | inr c => inr c end) = inl s ->
  (match apply_entry es slots e2 with inl s2 => apply_entry es s2 e1 | inr c => inr c end) = inl s.
Proof.
  intros Hne H. assert (Hne' : w_id e2 <> w_id e1) by (intros E; apply Hne; symmetry; exact E).
  destruct (apply_entry es slots e1) as [s1|c] eqn:E1; [|discriminate].
  (* a step that does nothing (unknown or deleted id) does nothing on any slots
     that agree on its id *)
  assert (Noop : forall e sl sl', (slot_of es sl (w_id e) = None \/ exists t' x, slot_of es sl (w_id e) = Some (false, t', x)) ->
                 slot_of es sl' (w_id e) = slot_of es sl (w_id e) -> apply_entry es sl' e = inl sl').
  { intros e sl sl' [Hn|(t' & x & Hd)] Heq.
    - apply apply_entry_unknown. rewrite Heq. exact Hn.
    - apply (apply_entry_deleted _ _ _ t' x). rewrite Heq. exact Hd. }
  destruct (apply_entry_cases _ _ _ _ E1) as [[A1 ->]|[(t1 & x1 & A1 & ->)|(t1 & y1 & p1 & A1 & B1 & ->)]].
  - (* e1 unknown *)
    rewrite H.
    destruct (apply_entry_cases _ _ _ _ H) as [[_ ->]|[(t2 & x2 & _ & ->)|(t2 & y2 & p2 & A2 & B2 & ->)]];
      try (apply (Noop e1 slots); [left; exact A1|reflexivity]).
    apply (Noop e1 slots); [left; exact A1|]. apply slot_of_set_other. exact Hne'.
  - (* e1 deleted *)
    rewrite H.
    destruct (apply_entry_cases _ _ _ _ H) as [[_ ->]|[(t2 & x2 & _ & ->)|(t2 & y2 & p2 & A2 & B2 & ->)]];
      try (apply (Noop e1 slots); [right; eauto|reflexivity]).
    apply (Noop e1 slots); [right; eauto|]. apply slot_of_set_other. exact Hne'.
  - (* e1 fills its slot *)
    assert (S2 : slot_of es (set_slot es slots (w_id e1) (VSome y1)) (w_id e2) = slot_of es slots (w_id e2))
      by (apply slot_of_set_other; exact Hne).
    destruct (apply_entry_cases _ _ _ _ H) as [[A2 ->]|[(t2 & x2 & A2 & ->)|(t2 & y2 & p2 & A2 & B2 & ->)]].
    + rewrite S2 in A2. rewrite (apply_entry_unknown _ _ _ A2). exact E1.
    + rewrite S2 in A2. rewrite (apply_entry_deleted _ _ _ _ _ A2). exact E1.
    + rewrite S2 in A2. rewrite (apply_entry_value _ _ _ _ _ _ A2 B2).
      assert (A1' : slot_of es (set_slot es slots (w_id e2) (VSome y2)) (w_id e1) = Some (true, t1, VNone))
        by (rewrite slot_of_set_other; [exact A1|exact Hne']).
      rewrite (apply_entry_value _ _ _ _ _ _ A1' B1). f_equal. apply set_slot_comm. exact Hne'.
Qed.

Theorem any_order es (ents ents' : list went) : Permutation ents ents' ->
  NoDup (map w_id ents) -> forall slots s,
  apply_entries es slots ents = inl s -> apply_entries es slots ents' = inl s.
Proof.
  induction 1 as [|x l l' Hp IH|x y l|l l' l'' Hp1 IH1 Hp2 IH2]; intros Hnd slots s H.
  - exact H.
  - cbn [apply_entries map] in *. inversion Hnd as [|? ? Hx Hl]; subst.
    destruct (apply_entry es slots x) as [s1|c]; [|discriminate]. apply (IH Hl _ _ H).
  - cbn [apply_entries map] in *.
    assert (Hne : w_id y <> w_id x).
    { inversion Hnd as [|? ? Hy Hl]; subst. intros E. apply Hy. left. symmetry. exact E. }
    destruct (apply_entry es slots y) as [s1|c] eqn:Ey; [|discriminate].
    destruct (apply_entry es s1 x) as [s2|c] eqn:Ex; [|discriminate].
    pose proof (apply_entry_swap es slots y x s2 Hne) as Sw. rewrite Ey in Sw. specialize (Sw Ex).
    destruct (apply_entry es slots x) as [s1'|c]; [|discriminate]. rewrite Sw. exact H.
  - apply IH2; [|apply IH1; assumption].
    apply (Permutation_NoDup (Permutation_map w_id Hp1) Hnd).
Qed.

(* ---- C08: declared sizes --------------------------------------------------------------- *)
(* larger than the value needs: accepted, the surplus is skipped *)
Theorem long_size_accepted es slots eid t' y (pad : bytes) :
  wf t' = true -> has_type t' y = true ->
  slot_of es slots eid = Some (true, t', VNone) ->
  apply_entry es slots {| w_id := eid; w_body := spec_enc t' y ++ pad |} = inl (set_slot es slots eid (VSome y)).
Proof.
  intros Hw Hy Hs.
  apply (apply_entry_value es slots {| w_id := eid; w_body := spec_enc t' y ++ pad |} t' y pad Hs).
  cbn [w_body]. apply dec_from_payload; [exact Hy|apply decp_payload; assumption].
Qed.

(* smaller than the value needs: the read fails *)
Theorem short_size_rejected es slots eid t' y k :
  wf t' = true -> has_type t' y = true -> (k < length (spec_enc t' y))%nat ->
  slot_of es slots eid = Some (true, t', VNone) ->
  exists c, apply_entry es slots {| w_id := eid; w_body := firstn k (spec_enc t' y) |} = inr c.
Proof.
  intros Hw Hy Hk Hs.
  destruct (dec t' lr_ops (firstn k (spec_enc t' y))) as [v r|c l] eqn:Ed.
  - exfalso. refine (truncation_rejected t' (spec_enc t' y) y k _ Hk v r Ed).
    pose proof (dec_from_payload t' y [] Hy (decp_payload t' y Hw Hy [])) as H. rewrite app_nil_r in H. exact H.
  - exists c. apply (apply_entry_inner_error es slots {| w_id := eid; w_body := firstn k (spec_enc t' y) |} t' c l Hs Ed).
Qed.

(* ---- a pointwise description of reading a list of entries with distinct ids -------------- *)
Definition entry_result (t' : ty) (sl : val) (e : option went) : val :=
  match e with
  | Some e => match dec t' lr_ops (w_body e) with Ok y _ => VSome y | Err _ _ => sl end
  | None => sl
  end.

Lemma apply_entries_char es (ents : list went) : NoDup (map w_id ents) -> forall slots,
  (forall e, In e ents -> forall t' sl, slot_of es slots (w_id e) = Some (true, t', sl) ->
        sl = VNone /\ exists y pad, dec t' lr_ops (w_body e) = Ok y pad) ->
  exists s, apply_entries es slots ents = inl s /\
    forall id, slot_of es s id =
      match slot_of es slots id with
      | Some (true, t', sl) => Some (true, t', entry_result t' sl (find (fun e => w_id e =? id) ents))
      | other => other
      end.
Proof.
  induction ents as [|e ents IH]; intros Hnd slots Hok.
  - exists slots. split; [reflexivity|]. intros id. cbn [find entry_result].
    destruct (slot_of es slots id) as [[[a t'] sl]|]; [destruct a|]; reflexivity.
  - cbn [map] in Hnd. inversion Hnd as [|? ? Hx Hl]; subst.
    assert (Hother : forall s1, (forall id', id' <> w_id e -> slot_of es s1 id' = slot_of es slots id') ->
              forall e', In e' ents -> forall t' sl, slot_of es s1 (w_id e') = Some (true, t', sl) ->
              sl = VNone /\ exists y pad, dec t' lr_ops (w_body e') = Ok y pad).
    { intros s1 Hs1 e' Hin t' sl Hsl. apply (Hok e' (or_intror Hin) t' sl).
      rewrite <- Hs1; [exact Hsl|]. intros E. apply Hx. rewrite <- E. apply in_map, Hin. }
    cbn [apply_entries].
    destruct (slot_of es slots (w_id e)) as [[[a t'] sl]|] eqn:Se; [destruct a|].
    + (* active *)
      destruct (Hok e (or_introl eq_refl) t' sl Se) as (-> & y & pad & Hd).
      rewrite (apply_entry_value _ _ _ _ _ _ Se Hd).
      destruct (IH Hl (set_slot es slots (w_id e) (VSome y))) as (s & Hs & Hc).
      { apply Hother. intros id' Hne. apply slot_of_set_other. intros E; apply Hne; symmetry; exact E. }
      exists s. split; [exact Hs|]. intros id. rewrite (Hc id). cbn [find].
      destruct (N.eqb_spec (w_id e) id) as [E|E].
      * subst id. rewrite (slot_of_set_same _ _ _ (VSome y) _ _ _ Se), Se.
        assert (Hf : find (fun e0 => w_id e0 =? w_id e) ents = None).
        { destruct (find (fun e0 => w_id e0 =? w_id e) ents) as [e0|] eqn:F; [|reflexivity].
          apply find_some in F. destruct F as [Hin E0]. apply N.eqb_eq in E0. exfalso. apply Hx.
          rewrite <- E0. apply in_map, Hin. }
        rewrite Hf. cbn [entry_result]. rewrite Hd. reflexivity.
      * rewrite (slot_of_set_other _ _ _ _ _ E). reflexivity.
    + (* deleted *)
      rewrite (apply_entry_deleted _ _ _ _ _ Se).
      destruct (IH Hl slots) as (s & Hs & Hc).
      { apply Hother. intros; reflexivity. }
      exists s. split; [exact Hs|]. intros id. rewrite (Hc id). cbn [find].
      destruct (N.eqb_spec (w_id e) id) as [E|E]; [|reflexivity].
      subst id. rewrite Se. reflexivity.
    + (* unknown *)
      rewrite (apply_entry_unknown _ _ _ Se).
      destruct (IH Hl slots) as (s & Hs & Hc).
      { apply Hother. intros; reflexivity. }
      exists s. split; [exact Hs|]. intros id. rewrite (Hc id). cbn [find].
      destruct (N.eqb_spec (w_id e) id) as [E|E]; [|reflexivity].
      subst id. rewrite Se. reflexivity.
Qed.

(* ---- C07: a table written with one definition, read with another --------------------- *)
Definition entry_body (t' : ty) (y : val) : bytes :=
  spec_enc t' y ++ repeat 0 (N.to_nat (tsize t' y - nlen (spec_enc t' y))).

Fixpoint wire_entries (es : list (N * bool * ty)) (xs : list val) : list went :=
  match es, xs with
  | (eid, act, t') :: es', x :: xs' =>
      (match x with
       | VSome y => [{| w_id := eid; w_body := entry_body t' y |}]
       | _ => []
       end) ++ wire_entries es' xs'
  | _, _ => []
  end.

(* the writer's non-empty entry with a given id: its type and value *)
Fixpoint writer_value (es : list (N * bool * ty)) (xs : list val) (id : N) : option (ty * val) :=
  match es, xs with
  | (eid, act, t') :: es', x :: xs' =>
      match x with
      | VSome y => if eid =? id then Some (t', y) else writer_value es' xs' id
      | _ => writer_value es' xs' id
      end
  | _, _ => None
  end.

Lemma entry_body_len t' y : has_type t' y = true -> nlen (entry_body t' y) = tsize t' y.
Proof.
  intros H. destruct (spec_enc_size t' y H) as [Hle _]. unfold entry_body.
  rewrite nlen_app, nlen_repeat, N2Nat.id. lia.
Qed.

Lemma spec_enc_table_wire h es xs : entries_typed es xs = true ->
  spec_enc (TTab h es) (VTab xs) = table_wire h (wire_entries es xs).
Proof.
  intros Ht. cbn [spec_enc]. rewrite enc_entries_eq. unfold table_wire. f_equal. f_equal.
  assert (G : nlen (filter is_some xs) = nlen (wire_entries es xs) /\
              enc_entries es xs = flat_map went_bytes (wire_entries es xs)).
  { revert xs Ht. induction es as [|[[eid act] t'] es IH]; intros [|x xs] Ht; cbn in Ht; try discriminate.
    - split; reflexivity.
    - apply andb_prop in Ht. destruct Ht as [Hx Ht]. destruct (IH xs Ht) as [G1 G2].
      cbn [filter wire_entries enc_entries]. destruct x; try discriminate; cbn [is_some app].
      + split; [exact G1|]. rewrite G2. reflexivity.
      + apply andb_prop in Hx. destruct Hx as [Hx _]. apply andb_prop in Hx. destruct Hx as [_ Hx].
        split.
        * rewrite !nlen_cons, G1. reflexivity.
        * cbn [flat_map]. unfold went_bytes at 1. cbn [w_id w_body].
          rewrite (entry_body_len t' x Hx). unfold entry_body. rewrite G2, <- !app_assoc. reflexivity. }
  destruct G as [G1 G2]. rewrite G1, G2. reflexivity.
Qed.

Lemma find_wire es xs id :
  find (fun e => w_id e =? id) (wire_entries es xs) =
  match writer_value es xs id with
  | Some (t', y) => Some {| w_id := id; w_body := entry_body t' y |}
  | None => None
  end.
Proof.
  revert xs. induction es as [|[[eid act] t'] es IH]; intros [|x xs]; cbn [wire_entries writer_value find]; try reflexivity.
  destruct x; cbn [app find]; try apply IH.
  cbn [w_id]. destruct (N.eqb_spec eid id) as [->|E]; [reflexivity|apply IH].
Qed.

Lemma wire_entries_origin es xs e : entries_typed es xs = true -> In e (wire_entries es xs) ->
  exists t' y, In (w_id e, true, t') es /\ has_type t' y = true /\ tsize t' y < two64 /\
               w_body e = entry_body t' y.
Proof.
  revert xs. induction es as [|[[eid act] t'] es IH]; intros [|x xs] Ht Hin; cbn in *; try contradiction; try discriminate.
  apply andb_prop in Ht. destruct Ht as [Hx Ht].
  apply in_app_or in Hin. destruct Hin as [Hin|Hin].
  - destruct x; cbn in Hin; try contradiction. destruct Hin as [<-|[]].
    apply andb_prop in Hx. destruct Hx as [Hx Hsz]. apply andb_prop in Hx. destruct Hx as [Ha Hx].
    destruct act; [|discriminate]. exists t', x. cbn. repeat split; auto. apply N.ltb_lt, Hsz.
  - destruct (IH xs Ht Hin) as (t0 & y & H1 & H2). exists t0, y. split; [right; exact H1|exact H2].
Qed.

Lemma wire_entries_nodup es xs : nodup_ids (map (fun e => fst (fst e)) es) = true ->
  NoDup (map w_id (wire_entries es xs)).
Proof.
  revert xs. induction es as [|[[eid act] t'] es IH]; intros [|x xs] H; cbn [wire_entries map]; try constructor.
  cbn [map fst nodup_ids] in H. apply andb_prop in H. destruct H as [Hn H]. apply negb_true_iff in Hn.
  assert (Hno : ~ In eid (map w_id (wire_entries es xs))).
  { intros Hin. apply in_map_iff in Hin. destruct Hin as (e & He & Hin).
    assert (G : forall es xs e, In e (wire_entries es xs) -> In (w_id e) (map (fun e => fst (fst e)) es)).
    { clear. induction es as [|[[i a] t] es IH]; intros [|x xs] e Hin; cbn in *; try contradiction.
      apply in_app_or in Hin. destruct Hin as [Hin|Hin].
      - destruct x; cbn in Hin; try contradiction. destruct Hin as [<-|[]]. left. reflexivity.
      - right. apply (IH xs e Hin). }
    apply G in Hin. rewrite He in Hin.
    assert (existsb (N.eqb eid) (map (fun e => fst (fst e)) es) = true).
    { apply existsb_exists. exists eid. split; [exact Hin|apply N.eqb_refl]. }
    congruence. }
  destruct x; cbn [app map]; try (apply IH; exact H).
  constructor; [exact Hno|apply IH; exact H].
Qed.

Lemma slot_of_nones es id a t' sl : slot_of es (map (fun _ => VNone) es) id = Some (a, t', sl) -> sl = VNone.
Proof.
  induction es as [|[[eid act] t0] es IH]; cbn; [discriminate|].
  destruct (eid =? id); [intros H; injection H as _ _ <-; reflexivity|exact IH].
Qed.

Theorem cross_version h es_w es_r xs rest :
  h < two64 -> nlen es_w < two64 ->
  forallb (fun e => fst (fst e) <? two64) es_w = true ->
  nodup_ids (map (fun e => fst (fst e)) es_w) = true ->
  forallb (fun e => wf (snd e)) es_w = true ->
  entries_typed es_w xs = true ->
  (* an id active in both definitions carries the same type *)
  (forall id t_w t_r sl, In (id, true, t_w) es_w ->
      slot_of es_r (map (fun _ => VNone) es_r) id = Some (true, t_r, sl) -> t_r = t_w) ->
  exists s, dec (TTab h es_r) lr_ops (spec_enc (TTab h es_w) (VTab xs) ++ rest) = Ok (VTab s) rest /\
    forall id, slot_of es_r s id =
      match slot_of es_r (map (fun _ => VNone) es_r) id with
      | Some (true, t_r, _) =>
          Some (true, t_r, match writer_value es_w xs id with Some (_, y) => VSome y | None => VNone end)
      | other => other
      end.
Proof.
  intros Hh Hn Hids Hnd Hwf Ht Hsame.
  rewrite (spec_enc_table_wire h es_w xs Ht).
  set (ents := wire_entries es_w xs).
  assert (Hok : Forall went_ok ents).
  { apply Forall_forall. intros e Hin. destruct (wire_entries_origin _ _ _ Ht Hin) as (t' & y & H1 & H2 & H3 & H4).
    split.
    - rewrite forallb_forall in Hids. apply N.ltb_lt. apply (Hids (w_id e, true, t') H1).
    - rewrite H4, (entry_body_len _ _ H2). exact H3. }
  assert (Hlen : nlen ents < two64).
  { assert (G : forall es ys, (length (wire_entries es ys) <= length es)%nat).
    { induction es as [|[[i a] t] es IH]; intros [|x ys]; cbn; try lia.
      specialize (IH ys). destruct x; cbn; lia. }
    specialize (G es_w xs). unfold ents, nlen in *. lia. }
  destruct (apply_entries_char es_r ents (wire_entries_nodup es_w xs Hnd) (map (fun _ => VNone) es_r))
    as (s & Hs & Hc).
  { intros e Hin t' sl Hsl. split; [apply (slot_of_nones _ _ _ _ _ Hsl)|].
    destruct (wire_entries_origin _ _ _ Ht Hin) as (t_w & y & H1 & H2 & H3 & H4).
    rewrite (Hsame _ _ _ _ H1 Hsl). rewrite H4. unfold entry_body.
    exists y. eexists. apply dec_from_payload; [exact H2|]. apply decp_payload; [|exact H2].
    rewrite forallb_forall in Hwf. apply (Hwf (w_id e, true, t_w) H1). }
  pose proof (table_read_spec h es_r ents rest Hh Hlen Hok) as T. rewrite Hs in T.
  exists s. split; [exact T|]. intros id. rewrite (Hc id).
  destruct (slot_of es_r (map (fun _ => VNone) es_r) id) as [[[a t_r] sl]|] eqn:Sl; [|reflexivity].
  destruct a; [|reflexivity]. f_equal. f_equal.
  pose proof (slot_of_nones _ _ _ _ _ Sl) as ->.
  unfold ents. rewrite find_wire.
  destruct (writer_value es_w xs id) as [[t_w y]|] eqn:Wv; cbn [entry_result w_body]; [|reflexivity].
  (* the entry decodes to the writer's value *)
  assert (Hin : In (id, true, t_w) es_w /\ has_type t_w y = true).
  { clear - Wv Ht. revert xs Wv Ht. induction es_w as [|[[eid act] t'] es IH]; intros [|x xs0] Wv Ht; cbn in *; try discriminate.
    apply andb_prop in Ht. destruct Ht as [Hx Ht]. destruct x; try (destruct (IH xs0 Wv Ht); split; [right|]; assumption).
    apply andb_prop in Hx. destruct Hx as [Hx _]. apply andb_prop in Hx. destruct Hx as [Ha Hx].
    destruct (N.eqb_spec eid id) as [->|E].
    - injection Wv as <- <-. destruct act; [|discriminate]. split; [left; reflexivity|exact Hx].
    - destruct (IH xs0 Wv Ht); split; [right|]; assumption. }
  destruct Hin as [Hin Hy]. rewrite (Hsame _ _ _ _ Hin Sl).
  unfold entry_body. rewrite (dec_from_payload t_w y _ Hy).
  - reflexivity.
  - apply decp_payload; [|exact Hy]. rewrite forallb_forall in Hwf. apply (Hwf (id, true, t_w) Hin).
Qed.
