(* Properties_C17.v — C17: one byte-source / byte-sink contract.  Statements
   only; proofs in Calls.v / Readers.v / DecSpec.v / EncSpec.v.
   StreamReader/Writer and FdReader/Writer have no Coq model (iostream and
   read(2)/write(2) semantics): for them the property is decided by the
   call-sequence oracle on real stringstreams and memfds. *)
From Nop Require Import Spec Sim WSim EncSpec ScalarRT DecSpec Readers Calls.
Local Open Scope N_scope.

(* Two readers related step by step deliver the same bytes and the same status
   at every call of every sequence — also after failed calls. *)
Theorem C17_same_outcomes : forall R1 R2 (rho : R1 -> R2 -> Prop) o1 o2 cs r1 r2,
  rops_rel true rho o1 o2 -> rho r1 r2 ->
  fst (run_rcalls o1 cs r1) = fst (run_rcalls o2 cs r2) /\
  rho (snd (run_rcalls o1 cs r1)) (snd (run_rcalls o2 cs r2)).
Proof. intros R1 R2 rho o1 o2 cs r1 r2. apply run_rcalls_rel. Qed.
Print Assumptions C17_same_outcomes.

(* instances: the buffer reader model vs ListReader; BoundedReader over ListReader
   vs ListReader on the frame; BoundedReader over any related readers *)
Theorem C17_buffer_reader : rops_rel true bufr_rel bufr_ops lr_ops.
Proof. exact bufr_refines. Qed.
Print Assumptions C17_buffer_reader.
Theorem C17_bounded_reader : forall r0 sz, sz < two64 ->
  rops_rel true (frame_rel r0 sz) (bounded_rops lr_ops) lr_ops.
Proof. exact lr_bounded_rel. Qed.
Print Assumptions C17_bounded_reader.
Theorem C17_bounded_over_related : forall R1 R2 (rho : R1 -> R2 -> Prop) o1 o2,
  rops_rel true rho o1 o2 -> rops_rel true (brel rho) (bounded_rops o1) (bounded_rops o2).
Proof. intros R1 R2 rho o1 o2. apply bounded_rops_rel1. Qed.
Print Assumptions C17_bounded_over_related.

(* Ensure(n) on a bounded reader succeeds exactly when n bytes remain *)
Theorem C17_ensure_exact : forall (r : bufr) n, br_idx r <= br_size r -> br_size r < two64 ->
  r_ensure bufr_ops n r = if n <=? br_size r - br_idx r then Ok tt r else Err EReadLimit r.
Proof. exact bufr_ensure_exact. Qed.
Print Assumptions C17_ensure_exact.

(* writers: within capacity every buffer writer appends exactly the bytes it is
   given (appender contract), checked writers refuse exactly the calls that
   would exceed their capacity, Prepare is exact for all of them *)
Theorem C17_buffer_writer_appends : forall checked, appender (bufw_ops checked) bw_out bw_can.
Proof. exact bufw_appender. Qed.
Print Assumptions C17_buffer_writer_appends.
Theorem C17_checked_writer_exact : forall (w : bufw) bs, bw_idx w <= bw_cap w -> bw_cap w < two64 ->
  w_writen (bufw_ops true) bs w =
  if nlen bs <=? bw_cap w - bw_idx w then Ok tt (bw_put w bs) else Err EWriteLimit w.
Proof. exact bufw_checked_exact. Qed.
Print Assumptions C17_checked_writer_exact.
Theorem C17_prepare_exact : forall checked (w : bufw) n, bw_idx w <= bw_cap w -> bw_cap w < two64 ->
  w_prepare (bufw_ops checked) n w = if n <=? bw_cap w - bw_idx w then Ok tt w else Err EWriteLimit w.
Proof. exact bufw_prepare_exact. Qed.
Print Assumptions C17_prepare_exact.
