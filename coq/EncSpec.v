(* EncSpec.v — the model encoder writes exactly [spec_enc]:
   for every byte sink that behaves as an appender with enough room
   (ListWriter, the buffer writers, BoundedWriter over any of them, nested to
   any depth), Encoding<T>::Write succeeds and appends [spec_enc t v].
   Also: length (spec_enc t v) <= tsize t v, with equality without handles. *)
From Nop Require Import Spec Sim.
Local Open Scope N_scope.

(* ---------------------------------------------------------------- lengths -- *)
Lemma le_bytes_length n v : length (le_bytes n v) = n.
Proof. revert v; induction n; intros; cbn; auto. Qed.

Lemma fix_byte p : p < 128 \/ 192 <= p -> base_size p = 1 /\ class_len p = 0%nat.
Proof.
  intros H. unfold base_size, class_len, P_U8, P_U16, P_U32, P_U64, P_I8, P_I16, P_I32, P_I64, P_F32, P_F64.
  assert (E : forall c, 128 <= c < 192 -> (p =? c) = false) by (intros; apply N.eqb_neq; lia).
  rewrite !E by lia. cbn [orb].
  destruct H; [rewrite (proj2 (N.ltb_lt _ _)) by lia|
               rewrite (proj2 (N.ltb_ge _ _)) by lia; rewrite (proj2 (N.leb_le _ _)) by lia];
    cbn; auto.
Qed.

Lemma uprefix_cases z :
  (uprefix z < 128 \/ uprefix z = P_U8 \/ uprefix z = P_U16 \/ uprefix z = P_U32 \/ uprefix z = P_U64).
Proof.
  unfold uprefix.
  destruct (z <? 128)%Z eqn:E1; [left; apply Z.ltb_lt in E1; destruct z; cbn; lia|].
  destruct (z <? 256)%Z; [auto|]. destruct (z <? 65536)%Z; [auto|].
  destruct (z <? 4294967296)%Z; auto 6.
Qed.

Lemma sprefix_cases z :
  ((sprefix z < 128 \/ 192 <= sprefix z) \/ sprefix z = P_I8 \/ sprefix z = P_I16 \/
   sprefix z = P_I32 \/ sprefix z = P_I64).
Proof.
  unfold sprefix.
  destruct ((-64 <=? z) && (z <=? 127))%Z eqn:E1.
  - left. apply andb_prop in E1. destruct E1 as [A B]. apply Z.leb_le in A, B.
    destruct (Z_lt_le_dec z 0).
    + right. replace (z mod 256)%Z with (z + 256)%Z by (apply Z.mod_unique with (-1)%Z; lia). lia.
    + left. rewrite Z.mod_small by lia. lia.
  - destruct ((-128 <=? z) && (z <=? 127))%Z; [auto|].
    destruct ((-32768 <=? z) && (z <=? 32767))%Z; [auto|].
    destruct ((-2147483648 <=? z) && (z <=? 2147483647))%Z; auto 6.
Qed.

Lemma scalar_enc_length s z : nlen (scalar_enc s z) = base_size (scalar_prefix s z).
Proof.
  unfold scalar_enc, nlen. cbn [length].
  assert (G : forall p, (p < 128 \/ 192 <= p) \/ p = P_U8 \/ p = P_U16 \/ p = P_U32 \/ p = P_U64 \/
                        p = P_I8 \/ p = P_I16 \/ p = P_I32 \/ p = P_I64 \/ p = P_F32 \/ p = P_F64 ->
                        N.of_nat (S (class_len p)) = base_size p).
  { intros p [H|H].
    - destruct (fix_byte p H) as [-> ->]. reflexivity.
    - repeat (destruct H as [->|H]; [reflexivity|]). subst; reflexivity. }
  destruct s as [|k| |]; unfold scalar_payload.
  - cbn. destruct (z =? 0)%Z; reflexivity.
  - rewrite le_bytes_length. apply G. cbn [scalar_prefix]. destruct (signed k).
    + destruct (sprefix_cases z) as [H|[H|[H|[H|H]]]]; auto 12.
    + destruct (uprefix_cases z) as [H|[H|[H|[H|H]]]]; auto 12.
  - rewrite le_bytes_length. reflexivity.
  - rewrite le_bytes_length. reflexivity.
Qed.

Lemma uint_enc_length n : nlen (uint_enc n) = usize n.
Proof. unfold uint_enc, usize. rewrite scalar_enc_length. reflexivity. Qed.

Lemma base_size_le9 s z : base_size (scalar_prefix s z) <= 9.
Proof.
  rewrite <- scalar_enc_length. unfold scalar_enc, nlen. cbn [length].
  destruct s as [|k| |]; unfold scalar_payload; try rewrite le_bytes_length; cbn; try lia.
  - cbn [scalar_prefix]. destruct (signed k).
    + destruct (sprefix_cases z) as [H|[H|[H|[H|H]]]];
        [destruct (fix_byte _ H) as [_ ->]|rewrite H..]; cbn; lia.
    + destruct (uprefix_cases z) as [H|[H|[H|[H|H]]]];
        [destruct (fix_byte _ (or_introl H)) as [_ ->]|rewrite H..]; cbn; lia.
Qed.

Lemma nlen_app {A} (a b : list A) : nlen (a ++ b) = nlen a + nlen b.
Proof. unfold nlen. rewrite app_length. lia. Qed.

Lemma nlen_cons {A} (a : A) l : nlen (a :: l) = 1 + nlen l.
Proof. unfold nlen. cbn [length]. lia. Qed.

Lemma nlen_repeat {A} (a : A) n : nlen (repeat a n) = N.of_nat n.
Proof. unfold nlen. rewrite repeat_length. reflexivity. Qed.

Lemma raw_enc_length w z : length (raw_enc w z) = w.
Proof. apply le_bytes_length. Qed.

(* ------------------------------------------------------- byte-sink contract -- *)
(* [can w n]: n more bytes fit.  The laws are stated with a continuation
   budget k, which is what lets a BoundedWriter section hand the rest of the
   outer budget back when it ends. *)
Record appender {W} (o : wops W) (view : W -> bytes) (can : W -> N -> Prop) : Prop := {
  ap_mono : forall w a b, can w (a + b) -> can w a;
  ap_prepare : forall w n, can w n -> w_prepare o n w = Ok tt w;
  ap_write1 : forall b w k, can w (1 + k) ->
      exists w', w_write1 o b w = Ok tt w' /\ view w' = view w ++ [b] /\ can w' k;
  ap_writen : forall bs w k, can w (nlen bs + k) ->
      exists w', w_writen o bs w = Ok tt w' /\ view w' = view w ++ bs /\ can w' k;
  ap_skip : forall n v w k, can w (n + k) ->
      exists w', w_skip o n v w = Ok tt w' /\ view w' = view w ++ repeat v (N.to_nat n) /\ can w' k;
  ap_push : forall h w k, can w k ->
      exists w', w_pushhandle o h w = Ok h w' /\ view w' = view w /\ can w' k
}.

(* [writes m bs]: with room for bs (+k), m succeeds, appends bs, leaves k *)
Definition writes {W} (view : W -> bytes) (can : W -> N -> Prop)
           (m : W -> res unit W) (bs : bytes) : Prop :=
  forall w k, can w (nlen bs + k) ->
    exists w', m w = Ok tt w' /\ view w' = view w ++ bs /\ can w' k.

Section Writes.
  Context {W : Type} (o : wops W) (view : W -> bytes) (can : W -> N -> Prop).
  Hypothesis A : appender o view can.

  Lemma writes_nil : writes view can (fun w => Ok tt w) [].
  Proof. intros w k H. exists w. rewrite app_nil_r. cbn in H. auto. Qed.

  Lemma writes_seq m1 m2 b1 b2 :
    writes view can m1 b1 -> writes view can m2 b2 ->
    writes view can (fun w => bind (m1 w) (fun _ w => m2 w)) (b1 ++ b2).
  Proof.
    intros H1 H2 w k Hc. rewrite nlen_app, <- N.add_assoc in Hc.
    destruct (H1 w _ Hc) as (w1 & E1 & V1 & C1). rewrite E1. cbn [bind].
    destruct (H2 w1 _ C1) as (w2 & E2 & V2 & C2). exists w2. rewrite E2, V2, V1, app_assoc. auto.
  Qed.

  Lemma writes_ext m m' bs bs' :
    (forall w, m w = m' w) -> bs = bs' -> writes view can m bs -> writes view can m' bs'.
  Proof. intros E -> H w k Hc. rewrite <- E. apply H, Hc. Qed.

  Lemma writes_write1 b : writes view can (w_write1 o b) [b].
  Proof. intros w k H. apply (ap_write1 _ _ _ A). exact H. Qed.

  Lemma writes_writen bs : writes view can (w_writen o bs) bs.
  Proof. intros w k H. apply (ap_writen _ _ _ A). exact H. Qed.

  Lemma writes_scalar_payload s z :
    writes view can (write_scalar_payload o s z) (scalar_payload s z).
  Proof.
    unfold write_scalar_payload, scalar_payload.
    destruct s as [|k'| |].
    - apply writes_nil.
    - destruct (class_len (scalar_prefix (SInt k') z) =? 0)%nat eqn:E.
      + apply Nat.eqb_eq in E. rewrite E. cbn [le_bytes]. apply writes_nil.
      + apply writes_writen.
    - cbn. apply writes_writen.
    - cbn. apply writes_writen.
  Qed.

  Lemma writes_scalar s z : writes view can (write_scalar o s z) (scalar_enc s z).
  Proof.
    unfold write_scalar, scalar_enc.
    change (scalar_prefix s z :: scalar_payload s z) with ([scalar_prefix s z] ++ scalar_payload s z).
    apply writes_seq; [apply writes_write1|apply writes_scalar_payload].
  Qed.

  Lemma writes_u64 n : writes view can (write_u64 o n) (uint_enc n).
  Proof. apply writes_scalar. Qed.
End Writes.

(* ListWriter is an appender with unlimited room *)
Lemma lw_appender : appender lw_ops (fun w => w) (fun _ _ => True).
Proof.
  split; cbn; intros; auto; eexists; repeat split; reflexivity.
Qed.

(* BoundedWriter over an appender is an appender.  [bcan k b n]: n bytes fit in
   the frame and the wrapped sink has room for the whole rest of the frame
   plus k. *)
Definition bcan {W} (view : W -> bytes) (can : W -> N -> Prop) (k base size : N)
           (b : Bounded W) (n : N) : Prop :=
  b_index b + n <= b_size b /\ b_size b < two64 /\
  can (b_inner b) ((b_size b - b_index b) + k) /\
  nlen (view (b_inner b)) = base + b_index b /\ b_size b = size.

Lemma sub64_small a b : b <= a -> a < two64 -> sub64 a b = a - b.
Proof.
  intros H1 H2. unfold sub64. rewrite (N.mod_small b) by lia.
  replace (a + two64 - b) with ((a - b) + 1 * two64) by lia.
  rewrite N.mod_add by (unfold two64; lia). apply N.mod_small. lia.
Qed.

Lemma add64_small a b : a + b < two64 -> add64 a b = a + b.
Proof. intros. unfold add64. apply N.mod_small. assumption. Qed.

Lemma bounded_appender {W} (o : wops W) view can k base size :
  appender o view can ->
  appender (bounded_wops o) (fun b => view (b_inner b)) (bcan view can k base size).
Proof.
  intros A. split.
  - intros b a c (H1 & H2 & H3 & H4 & H5). split; [lia|auto].
  - intros b n (H1 & H2 & H3 & H4 & H5). cbn [bounded_wops w_prepare].
    rewrite sub64_small by lia. rewrite (proj2 (N.ltb_ge _ _)) by lia.
    unfold b_keep. rewrite (ap_prepare _ _ _ A).
    + destruct b as [[x s] i]; reflexivity.
    + apply (ap_mono _ _ _ A) with (b := b_size b - b_index b + k - n).
      replace (n + (b_size b - b_index b + k - n)) with (b_size b - b_index b + k) by lia. exact H3.
  - intros x b j (H1 & H2 & H3 & H4 & H5). cbn [bounded_wops w_write1].
    rewrite (proj2 (N.ltb_lt _ _)) by lia.
    destruct (ap_write1 _ _ _ A x (b_inner b) (b_size b - b_index b - 1 + k)) as (w' & E & V & C).
    { replace (1 + (b_size b - b_index b - 1 + k)) with (b_size b - b_index b + k) by lia. exact H3. }
    unfold b_lift. rewrite E. eexists; split; [reflexivity|]. split; [exact V|].
    unfold bcan, b_with, b_index, b_size, b_inner in *; cbn.
    rewrite add64_small by lia. split; [lia|]. split; [lia|]. split.
    + replace (snd (fst b) - (snd b + 1) + k) with (snd (fst b) - snd b - 1 + k) by lia. exact C.
    + rewrite V, nlen_app, H4. cbn. split; [lia|exact H5].
  - intros bs b j (H1 & H2 & H3 & H4 & H5). cbn [bounded_wops w_writen].
    rewrite sub64_small by lia. fold (nlen bs). rewrite (proj2 (N.ltb_ge _ _)) by lia.
    destruct (ap_writen _ _ _ A bs (b_inner b) (b_size b - b_index b - nlen bs + k)) as (w' & E & V & C).
    { replace (nlen bs + (b_size b - b_index b - nlen bs + k)) with (b_size b - b_index b + k) by lia. exact H3. }
    unfold b_lift. rewrite E. eexists; split; [reflexivity|]. split; [exact V|].
    unfold bcan, b_with, b_index, b_size, b_inner in *; cbn.
    rewrite add64_small by lia. split; [lia|]. split; [lia|]. split.
    + replace (snd (fst b) - (snd b + nlen bs) + k) with (snd (fst b) - snd b - nlen bs + k) by lia. exact C.
    + rewrite V, nlen_app, H4. split; [lia|exact H5].
  - intros n v b j (H1 & H2 & H3 & H4 & H5). cbn [bounded_wops w_skip].
    rewrite sub64_small by lia. rewrite (proj2 (N.ltb_ge _ _)) by lia.
    destruct (ap_skip _ _ _ A n v (b_inner b) (b_size b - b_index b - n + k)) as (w' & E & V & C).
    { replace (n + (b_size b - b_index b - n + k)) with (b_size b - b_index b + k) by lia. exact H3. }
    unfold b_lift. rewrite E. eexists; split; [reflexivity|]. split; [exact V|].
    unfold bcan, b_with, b_index, b_size, b_inner in *; cbn.
    rewrite add64_small by lia. split; [lia|]. split; [lia|]. split.
    + replace (snd (fst b) - (snd b + n) + k) with (snd (fst b) - snd b - n + k) by lia. exact C.
    + rewrite V, nlen_app, nlen_repeat, N2Nat.id, H4. split; [lia|exact H5].
  - intros h b j (H1 & H2 & H3 & H4 & H5). cbn [bounded_wops w_pushhandle].
    destruct (ap_push _ _ _ A h (b_inner b) _ H3) as (w' & E & V & C).
    unfold b_keep. rewrite E. eexists; split; [reflexivity|]. split; [exact V|].
    unfold bcan, b_with, b_index, b_size, b_inner in *; cbn. rewrite V. auto 6.
Qed.

(* ------------------------------------------------- spec_enc: head and length -- *)
Definition spec_payload (t : ty) (v : val) : bytes := tl (spec_enc t v).

Lemma spec_enc_hd : forall t v, has_type t v = true ->
  spec_enc t v = tprefix t v :: spec_payload t v.
Proof.
  unfold spec_payload.
  induction t using ty_ind'; intros v Hv; destruct v; cbn in Hv; try discriminate;
    cbn [spec_enc tprefix]; try reflexivity; try (apply IHt; exact Hv);
    try (destruct (raw_kind t) as [[w sg]|]; reflexivity); try (destruct k; reflexivity).
Qed.

Definition is_int (x : val) : bool := match x with VInt _ => true | _ => false end.

Lemma raw_bytes_len w vs :
  forallb is_int vs = true -> nlen (raw_bytes w vs) = nlen vs * N.of_nat w.
Proof.
  unfold nlen. induction vs as [|x vs IH]; cbn [raw_bytes flat_map forallb length]; intros H.
  - reflexivity.
  - apply andb_prop in H. destruct H as [Hx Hr]. destruct x; try discriminate.
    rewrite app_length, raw_enc_length. specialize (IH Hr). unfold raw_bytes in IH. lia.
Qed.

Lemma forallb_impl {A} (f g : A -> bool) l :
  (forall x, f x = true -> g x = true) -> forallb f l = true -> forallb g l = true.
Proof.
  intros H. induction l as [|a l IH]; cbn; auto. intros E. apply andb_prop in E.
  destruct E as [E1 E2]. rewrite (H _ E1), (IH E2). reflexivity.
Qed.

Lemma raw_kind_int t w sg x : raw_kind t = Some (w, sg) -> has_type t x = true -> is_int x = true.
Proof.
  destruct t; cbn; try discriminate. intros _ H. destruct x; cbn in H; try discriminate; reflexivity.
Qed.

Lemma raw_kind_no_handles t w : raw_kind t = Some w -> no_handles t = true.
Proof. destruct t; cbn; try discriminate; reflexivity. Qed.

Lemma flat_map_size (f : val -> bytes) (g : val -> N) vs :
  Forall (fun x => nlen (f x) <= g x) vs -> nlen (flat_map f vs) <= sum_sizes g vs.
Proof.
  induction 1 as [|x vs Hx _ IH]; cbn [flat_map sum_sizes]; [cbn; lia|].
  rewrite nlen_app. lia.
Qed.

Lemma flat_map_size_eq (f : val -> bytes) (g : val -> N) vs :
  Forall (fun x => nlen (f x) = g x) vs -> nlen (flat_map f vs) = sum_sizes g vs.
Proof.
  induction 1 as [|x vs Hx _ IH]; cbn [flat_map sum_sizes]; [reflexivity|].
  rewrite nlen_app. lia.
Qed.

Lemma forallb_Forall {A} (f : A -> bool) l : forallb f l = true -> Forall (fun x => f x = true) l.
Proof.
  induction l as [|a l IH]; cbn; intros H; constructor; apply andb_prop in H; destruct H; auto.
Qed.

Theorem spec_enc_size : forall t v, has_type t v = true ->
  nlen (spec_enc t v) <= tsize t v /\
  (no_handles t = true -> nlen (spec_enc t v) = tsize t v).
Proof.
  induction t using ty_ind'; intros v Hv; destruct v; cbn in Hv; try discriminate;
    cbn [spec_enc tsize no_handles].
  - (* scalar *) rewrite scalar_enc_length. split; [lia|intros; lia].
  - (* string *)
    apply andb_prop in Hv. destruct Hv as [_ Hv].
    rewrite nlen_cons, nlen_app, uint_enc_length, raw_bytes_len, N2Nat.id.
    + split; [lia|intros; lia].
    + eapply forallb_impl; [|exact Hv]. intros x Hx; destruct x; try discriminate; reflexivity.
  - (* seq *)
    apply andb_prop in Hv. destruct Hv as [_ Hv].
    destruct (raw_kind t) as [[w sg]|] eqn:Ek.
    + rewrite nlen_cons, nlen_app, uint_enc_length, raw_bytes_len.
      * split; [lia|intros; lia].
      * eapply forallb_impl; [|exact Hv]. intros x; apply (raw_kind_int _ _ _ _ Ek).
    + rewrite nlen_cons, nlen_app, uint_enc_length.
      apply forallb_Forall in Hv. split.
      * assert (nlen (flat_map (spec_enc t) vs) <= sum_sizes (tsize t) vs); [|lia].
        apply flat_map_size. eapply Forall_impl; [|exact Hv]. intros x Hx. apply IHt, Hx.
      * intros Hn. assert (nlen (flat_map (spec_enc t) vs) = sum_sizes (tsize t) vs); [|lia].
        apply flat_map_size_eq. eapply Forall_impl; [|exact Hv]. intros x Hx. apply IHt; assumption.
  - (* tuple *)
    rewrite nlen_cons, nlen_app, uint_enc_length.
    match goal with |- context [nlen (?f ts vs)] => set (A := f ts vs) end.
    match goal with |- context [_ + ?f ts vs] => set (B := f ts vs) end.
    assert (G : nlen A <= B /\ (forallb no_handles ts = true -> nlen A = B)); [|destruct G as [G1 G2]; split; [lia|intros Hn; specialize (G2 Hn); lia]].
    subst A B. clear k. revert vs Hv.
    induction H as [|t' ts' Ht' _ IH]; intros vs Hv; destruct vs as [|x vs']; try discriminate.
    + cbn. split; [lia|intros; lia].
    + apply andb_prop in Hv. destruct Hv as [Hx Hr].
      destruct (Ht' x Hx) as [L1 E1]. destruct (IH vs' Hr) as [L2 E2].
      rewrite nlen_app. split; [lia|]. cbn [forallb]. intros Hn. apply andb_prop in Hn.
      destruct Hn as [N1 N2]. rewrite E1, E2; auto.
  - (* wrap: all eleven shapes of v *) apply IHt; exact Hv.
  - apply IHt; exact Hv.
  - apply IHt; exact Hv.
  - apply IHt; exact Hv.
  - apply IHt; exact Hv.
  - apply IHt; exact Hv.
  - apply IHt; exact Hv.
  - apply IHt; exact Hv.
  - apply IHt; exact Hv.
  - apply IHt; exact Hv.
  - apply IHt; exact Hv.
  - (* map *)
    rewrite nlen_cons, nlen_app, uint_enc_length.
    match goal with |- context [_ + ?f kvs] => set (B := f kvs) end.
    set (A := flat_map _ kvs).
    assert (G : nlen A <= B /\ (no_handles t1 && no_handles t2 = true -> nlen A = B)); [|destruct G as [G1 G2]; split; [lia|intros Hn; specialize (G2 Hn); lia]].
    subst A B. apply andb_prop in Hv. destruct Hv as [_ Hv].
    induction kvs as [|[k x] kvs IH]; cbn [forallb flat_map] in *.
    + split; [cbn; lia|intros; cbn; lia].
    + apply andb_prop in Hv. destruct Hv as [Hkx Hr]. apply andb_prop in Hkx.
      destruct Hkx as [Hk Hx]. cbn [fst snd] in *.
      destruct (IHt1 k Hk) as [L1 E1]. destruct (IHt2 x Hx) as [L2 E2]. destruct (IH Hr) as [L3 E3].
      rewrite !nlen_app. split; [lia|]. intros Hn. apply andb_prop in Hn. destruct Hn as [N1 N2].
      rewrite E1, E2, E3; auto. rewrite N1, N2. reflexivity.
  - (* opt none *) split; [cbn; lia|intros; cbn; lia].
  - (* opt some *) apply IHt; exact Hv.
  - (* res err *) rewrite nlen_cons, scalar_enc_length. split; [lia|intros; lia].
  - (* res ok *) apply IHt; exact Hv.
  - (* var alt *)
    apply andb_prop in Hv. destruct Hv as [_ Hv].
    rewrite nlen_cons, nlen_app. unfold int32_enc. rewrite scalar_enc_length. cbn [scalar_prefix sI32 signed].
    match goal with |- context [nlen (?f ts (Z.to_nat i))] => set (A := f ts (Z.to_nat i)) end.
    match goal with |- context [_ + ?f ts (Z.to_nat i)] => set (B := f ts (Z.to_nat i)) end.
    assert (G : nlen A <= B /\ (forallb no_handles ts = true -> nlen A = B)); [|destruct G as [G1 G2]; split; [lia|intros Hn; specialize (G2 Hn); lia]].
    subst A B. revert Hv. generalize (Z.to_nat i) as n.
    induction H as [|t' ts' Ht' _ IH]; intros n Hv; [discriminate|].
    destruct n as [|n'].
    + destruct (Ht' v Hv) as [L1 E1]. split; [exact L1|]. cbn [forallb]. intros Hn.
      apply andb_prop in Hn. destruct Hn. auto.
    + destruct (IH n' Hv) as [L1 E1]. split; [exact L1|]. cbn [forallb]. intros Hn.
      apply andb_prop in Hn. destruct Hn. auto.
  - (* var empty *) split; [cbn; lia|intros; cbn; lia].
  - (* handle *)
    unfold int64_enc. rewrite nlen_cons, nlen_app, !scalar_enc_length. split; [|discriminate].
    pose proof (base_size_le9 sI64 h). lia.
  - (* table *)
    rewrite nlen_cons, !nlen_app, !uint_enc_length.
    change (fun x : val => match x with VSome _ => true | _ => false end) with is_some.
    match goal with |- context [nlen (?f es es0)] => set (A := f es es0) end.
    match goal with |- context [_ + ?f es es0] => set (B := f es es0) end.
    assert (G : nlen A = B); [|split; [lia|intros; lia]].
    subst A B. revert es0 Hv.
    induction H as [|[[eid act] t'] es' Ht' _ IH]; intros xs Hv; destruct xs as [|x xs']; try discriminate.
    + reflexivity.
    + apply andb_prop in Hv. destruct Hv as [Hx Hr]. rewrite nlen_app, (IH xs' Hr).
      f_equal. destruct x; try discriminate; try reflexivity.
      apply andb_prop in Hx. destruct Hx as [Hx Hsz]. apply andb_prop in Hx. destruct Hx as [Ha Hx].
      rewrite Ha. cbn [snd] in Ht'. destruct (Ht' x Hx) as [L1 _].
      rewrite !nlen_app, !uint_enc_length, nlen_repeat, N2Nat.id. lia.
Qed.

(* ------------------------------------------ the encoder writes [spec_enc] -- *)
Lemma writes_elem {W} (o : wops W) view can (A : appender o view can) t x :
  has_type t x = true ->
  writes view can (encp t x W o) (spec_payload t x) ->
  writes view can (fun w => bind (w_write1 o (tprefix t x) w) (fun _ w => encp t x W o w)) (spec_enc t x).
Proof.
  intros Hx Hp. rewrite (spec_enc_hd t x Hx).
  change (tprefix t x :: spec_payload t x) with ([tprefix t x] ++ spec_payload t x).
  apply (writes_seq view can); [apply (writes_write1 o view can A)|exact Hp].
Qed.

Theorem encp_writes : forall t v, has_type t v = true ->
  forall W (o : wops W) view can, appender o view can ->
  writes view can (encp t v W o) (spec_payload t v).
Proof.
  unfold spec_payload.
  induction t using ty_ind'; intros v Hv W o view can A; destruct v; cbn in Hv; try discriminate;
    cbn [encp spec_enc tl].
  - (* scalar *) apply writes_scalar_payload, A.
  - (* string *)
    apply (writes_seq view can); [apply writes_u64, A|apply writes_writen, A].
  - (* seq *)
    apply andb_prop in Hv. destruct Hv as [Hlen Hv].
    apply andb_prop in Hlen. destruct Hlen as [Hlen _].
    assert (Hl : match c with CLBuf _ cap _ unb => negb unb && (cap <? nlen vs) | _ => false end = false).
    { destruct c as [|ca n|ca cap sk unb]; auto. cbn in Hlen.
      destruct unb; cbn in *; auto. apply N.ltb_ge. apply N.leb_le. exact Hlen. }
    rewrite Hl. clear Hl Hlen.
    destruct (raw_kind t) as [[w sg]|] eqn:Ek; cbn [tl].
    + apply (writes_seq view can); [apply writes_u64, A|apply writes_writen, A].
    + apply (writes_seq view can); [apply writes_u64, A|].
      apply forallb_Forall in Hv. induction Hv as [|x vs' Hx _ IH]; cbn [flat_map].
      * apply writes_nil.
      * eapply writes_ext; [| |apply (writes_seq view can);
                                 [apply (writes_elem o view can A t x Hx), IHt; auto|exact IH]];
          [|reflexivity].
        intros w. cbn [bind]. destruct (w_write1 o (tprefix t x) w); cbn [bind]; [|reflexivity].
        destruct (encp t x W o s); reflexivity.
  - (* tuple *)
    apply (writes_seq view can); [apply writes_u64, A|]. clear k.
    revert vs Hv. induction H as [|t' ts' Ht' _ IH]; intros vs Hv; destruct vs as [|x vs']; try discriminate.
    + apply writes_nil.
    + apply andb_prop in Hv. destruct Hv as [Hx Hr].
      eapply writes_ext; [| |apply (writes_seq view can);
                               [apply (writes_elem o view can A t' x Hx), Ht'; auto|exact (IH vs' Hr)]];
        [|reflexivity].
      intros w. cbn [bind]. destruct (w_write1 o (tprefix t' x) w); cbn [bind]; [|reflexivity].
      destruct (encp t' x W o s); reflexivity.
  - apply IHt; auto.
  - apply IHt; auto.
  - apply IHt; auto.
  - apply IHt; auto.
  - apply IHt; auto.
  - apply IHt; auto.
  - apply IHt; auto.
  - apply IHt; auto.
  - apply IHt; auto.
  - apply IHt; auto.
  - apply IHt; auto.
  - (* map *)
    apply (writes_seq view can); [apply writes_u64, A|].
    apply andb_prop in Hv. destruct Hv as [_ Hv].
    induction kvs as [|[k x] kvs IH]; cbn [flat_map forallb] in *.
    + apply writes_nil.
    + apply andb_prop in Hv. destruct Hv as [Hkx Hr]. apply andb_prop in Hkx.
      destruct Hkx as [Hk Hx]. cbn [fst snd] in *.
      eapply writes_ext; [| |apply (writes_seq view can);
          [apply (writes_seq view can);
             [apply (writes_elem o view can A t1 k Hk), IHt1; auto
             |apply (writes_elem o view can A t2 x Hx), IHt2; auto]
          |exact (IH Hr)]]; [|reflexivity].
      intros w. cbn [bind]. destruct (w_write1 o (tprefix t1 k) w); cbn [bind]; [|reflexivity].
      destruct (encp t1 k W o s); cbn [bind]; [|reflexivity].
      destruct (w_write1 o (tprefix t2 x) s0); cbn [bind]; [|reflexivity].
      destruct (encp t2 x W o s1); reflexivity.
  - (* opt none *) apply writes_nil.
  - (* opt some *) apply IHt; auto.
  - (* res err *) apply writes_scalar, A.
  - (* res ok *) apply IHt; auto.
  - (* var alt *)
    apply andb_prop in Hv. destruct Hv as [_ Hv].
    apply (writes_seq view can); [apply writes_scalar, A|].
    revert Hv. generalize (Z.to_nat i) as n.
    induction H as [|t' ts' Ht' _ IH]; intros n Hv; [discriminate|].
    destruct n as [|n'].
    + apply (writes_elem o view can A t' v Hv), Ht'; auto.
    + apply IH, Hv.
  - (* var empty *)
    apply (writes_seq view can); [apply writes_scalar, A|apply writes_write1, A].
  - (* handle *)
    change (scalar_enc (SInt tk) tag ++ int64_enc h) with (scalar_enc (SInt tk) tag ++ [] ++ int64_enc h).
    intros w k Hc. rewrite nlen_app in Hc. rewrite <- N.add_assoc in Hc.
    destruct (writes_scalar o view can A (SInt tk) tag w _ Hc) as (w1 & E1 & V1 & C1).
    rewrite E1. cbn [bind].
    destruct (ap_push _ _ _ A h w1 _ C1) as (w2 & E2 & V2 & C2). rewrite E2. cbn [bind].
    cbn [app] in C2.
    destruct (writes_scalar o view can A sI64 h w2 _ C2) as (w3 & E3 & V3 & C3).
    exists w3. rewrite E3, V3, V2, V1, app_assoc. auto.
  - (* table *)
    change (fun x : val => match x with VSome _ => true | _ => false end) with is_some.
    apply (writes_seq view can); [apply writes_u64, A|].
    apply (writes_seq view can); [apply writes_u64, A|].
    revert es0 Hv.
    induction H as [|[[eid act] t'] es' Ht' _ IH]; intros xs Hv; destruct xs as [|x xs']; try discriminate.
    + apply writes_nil.
    + apply andb_prop in Hv. destruct Hv as [Hx Hr]. specialize (IH xs' Hr).
      destruct x; try discriminate.
      * (* empty entry: omitted *) cbn [app]. exact IH.
      * apply andb_prop in Hx. destruct Hx as [Hx Hsz]. apply andb_prop in Hx. destruct Hx as [Ha Hx].
        rewrite Ha. cbn [snd] in Ht'. apply N.ltb_lt in Hsz.
        destruct (spec_enc_size t' x Hx) as [Hle _].
        set (body := spec_enc t' x) in *. set (sz := tsize t' x) in *.
        intros w k Hc.
        rewrite !nlen_app in Hc. rewrite <- !N.add_assoc in Hc.
        destruct (writes_u64 o view can A eid w _ Hc) as (w1 & E1 & V1 & C1). rewrite E1. cbn [bind].
        destruct (writes_u64 o view can A sz w1 _ C1) as (w2 & E2 & V2 & C2). rewrite E2. cbn [bind].
        rewrite nlen_repeat, N2Nat.id in C2.
        (* the BoundedWriter section *)
        set (k2 := nlen ((fix go (es : list (N * bool * ty)) (xs : list val) {struct es} : bytes :=
                            match es, xs with
                            | (eid, _, t'0) :: es'0, x0 :: xs'0 =>
                                (match x0 with
                                 | VSome y => uint_enc eid ++ uint_enc (tsize t'0 y) ++ spec_enc t'0 y ++
                                              repeat 0 (N.to_nat (tsize t'0 y - nlen (spec_enc t'0 y)))
                                 | _ => []
                                 end) ++ go es'0 xs'0
                            | _, _ => []
                            end) es' xs') + k) in *.
        pose proof (bounded_appender o view can k2 (nlen (view w2)) sz A) as BA.
        assert (BC : bcan view can k2 (nlen (view w2)) sz (b_make w2 sz) (nlen body + (sz - nlen body))).
        { unfold bcan, b_make, b_index, b_size, b_inner; cbn. repeat split; try lia.
          replace (sz - 0 + k2) with (nlen body + (sz - nlen body + k2)) by lia. exact C2. }
        pose proof (writes_elem (bounded_wops o) (fun b => view (b_inner b))
                      (bcan view can k2 (nlen (view w2)) sz) BA t' x Hx
                      (Ht' x Hx _ _ _ _ BA) (b_make w2 sz) (sz - nlen body) BC) as (b1 & E3 & V3 & C3).
        fold body in V3. rewrite E3.
        destruct C3 as (H1 & H2 & H3 & H4 & H5).
        assert (Hidx : b_index b1 = nlen body).
        { rewrite V3, nlen_app in H4. unfold b_make, b_inner in H4; cbn in H4.
          unfold b_inner. lia. }
        unfold bounded_write_padding. rewrite H5, Hidx, sub64_small by lia.
        rewrite H5, Hidx in H3.
        destruct (ap_skip _ _ _ A (sz - nlen body) 0 (b_inner b1) k2 H3) as (w3 & E4 & V4 & C4).
        rewrite E4. cbn [b_lift b_with b_inner fst].
        destruct (IH w3 k C4) as (w4 & E5 & V5 & C5).
        exists w4. split; [exact E5|]. split; [|exact C5].
        change (b_inner (b_make w2 sz)) with w2 in V3.
        rewrite V5, V4, V3, V2, V1. rewrite <- !app_assoc. reflexivity.
Qed.


(* ------------------------------------------------------------- corollaries -- *)
Theorem enc_writes t v : has_type t v = true ->
  forall W (o : wops W) view can, appender o view can ->
  writes view can (enc t v o) (spec_enc t v).
Proof.
  intros Hv W o view can A. unfold enc.
  apply (writes_elem o view can A t v Hv), encp_writes; assumption.
Qed.

Theorem lenc_spec t v : has_type t v = true -> lenc t v = Ok tt (spec_enc t v).
Proof.
  intros Hv. destruct (enc_writes t v Hv LW lw_ops _ _ lw_appender [] 0 I) as (w & E & V & _).
  unfold lenc. rewrite E. cbn in V. rewrite V. reflexivity.
Qed.

(* Serializer::Write over any sink with room for GetSize(value) bytes *)
Theorem serialize_fits t v : has_type t v = true ->
  forall W (o : wops W) view can, appender o view can ->
  forall w k, can w (tsize t v + k) ->
  exists w', serialize t v o w = Ok tt w' /\ view w' = view w ++ spec_enc t v /\
             can w' (tsize t v - nlen (spec_enc t v) + k).
Proof.
  intros Hv W o view can A w k Hc. unfold serialize.
  rewrite (ap_prepare _ _ _ A); [|apply (ap_mono _ _ _ A) with (b := k); exact Hc]. cbn [bind].
  destruct (spec_enc_size t v Hv) as [Hle _].
  apply (enc_writes t v Hv W o view can A).
  replace (nlen (spec_enc t v) + (tsize t v - nlen (spec_enc t v) + k)) with (tsize t v + k) by lia.
  exact Hc.
Qed.

(* the buffer writer models are appenders while the capacity lasts, and never
   store out of bounds *)
Definition bw_can (w : bufw) (n : N) : Prop :=
  bw_idx w + n <= bw_cap w /\ bw_cap w < two64 /\ bw_oob w = false.

Lemma bufw_appender checked : appender (bufw_ops checked) bw_out bw_can.
Proof.
  assert (P : forall w bs k, bw_can w (nlen bs + k) ->
              bw_out (bw_put w bs) = bw_out w ++ bs /\ bw_can (bw_put w bs) k).
  { intros w bs k (H1 & H2 & H3). split; [reflexivity|].
    unfold bw_can, bw_put, bw_idx in *; cbn. rewrite app_length, Nat2N.inj_add. fold (nlen bs).
    repeat split; try lia. rewrite H3. cbn. apply N.ltb_ge. unfold nlen in *. lia. }
  split.
  - intros w a b (H1 & H2 & H3). split; [lia|auto].
  - intros w n (H1 & H2 & H3). cbn. rewrite sub64_small by lia.
    rewrite (proj2 (N.ltb_ge _ _)) by lia. reflexivity.
  - intros b w k H. pose proof H as (H1 & H2 & H3). cbn [bufw_ops w_write1].
    rewrite sub64_small by lia. rewrite (proj2 (N.ltb_ge _ _)) by lia. rewrite andb_false_r.
    eexists; split; [reflexivity|]. apply (P w [b] k). exact H.
  - intros bs w k H. pose proof H as (H1 & H2 & H3). cbn [bufw_ops w_writen].
    rewrite sub64_small by lia. fold (nlen bs). rewrite (proj2 (N.ltb_ge _ _)) by lia. rewrite andb_false_r.
    eexists; split; [reflexivity|]. apply (P w bs k). exact H.
  - intros n v w k H. pose proof H as (H1 & H2 & H3). cbn [bufw_ops w_skip].
    rewrite sub64_small by lia. rewrite (proj2 (N.ltb_ge _ _)) by lia. rewrite andb_false_r.
    eexists; split; [reflexivity|]. apply (P w (repeat v (N.to_nat n)) k).
    rewrite nlen_repeat, N2Nat.id. exact H.
  - intros h w k H. cbn. exists w. split; [reflexivity|]. split; [reflexivity|exact H].
Qed.
