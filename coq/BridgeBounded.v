(* BridgeBounded.v — the methods of BoundedReader / BoundedWriter as translated from /repo's current headers
   (GenBounded.v, terms of Imp.bstmt) ARE the hand-written model IO.bounded_rops / bounded_wops / the padding
   functions, for every wrapped object, argument and state.  A change of a guard, of its error code, of the operand
   order of a subtraction, of what is added to index_ (or of whether it is added at all) changes GenBounded.v and
   breaks a lemma here. *)
From Nop Require Import Base Gen Bridge Imp GenBounded.
Local Open Scope N_scope.

Ltac run_it :=
  unfold exec; cbv [run test eval nth app
                    gen_BoundedReader_Ensure gen_BoundedReader_Read1 gen_BoundedReader_ReadN gen_BoundedReader_Skip
                    gen_BoundedReader_ReadPadding gen_BoundedReader_GetHandle
                    gen_BoundedWriter_Prepare gen_BoundedWriter_Write1 gen_BoundedWriter_WriteN gen_BoundedWriter_Skip
                    gen_BoundedWriter_WritePadding gen_BoundedWriter_PushHandle];
  cbn [r_ensure r_read1 r_readn r_skip r_gethandle w_prepare w_write1 w_writen w_skip w_pushhandle bounded_rops bounded_wops];
  unfold bounded_read_padding, bounded_write_padding, b_lift, b_keep.

From Coq Require Import Lia.
(* comparisons written another way round in the source (`!(a >= b)` for `a < b`, ...) leave contradictory case
   combinations: closed by arithmetic *)
Ltac absurd_cmp :=
  exfalso;
  repeat match goal with
         | H : (_ <? _) = true |- _ => apply N.ltb_lt in H
         | H : (_ <? _) = false |- _ => apply N.ltb_ge in H
         | H : (_ <=? _) = true |- _ => apply N.leb_le in H
         | H : (_ <=? _) = false |- _ => apply N.leb_gt in H
         | H : (_ =? _) = true |- _ => apply N.eqb_eq in H
         | H : (_ =? _) = false |- _ => apply N.eqb_neq in H
         end; lia.
Ltac cases :=
  repeat match goal with
         | |- context [if ?c then _ else _] => destruct c eqn:?
         | |- context [match ?m with Ok _ _ => _ | Err _ _ => _ end] => destruct m eqn:?
         end; cbn [negb]; try reflexivity; try discriminate; try absurd_cmp.

Lemma b_with_idem {X} (b : Bounded X) x i j : b_with (b_with b x i) x j = b_with b x j.
Proof. destruct b as [[y s] k]. reflexivity. Qed.
Lemma b_with_inner {X} (b : Bounded X) x i : b_inner (b_with b x i) = x.
Proof. destruct b as [[y s] k]. reflexivity. Qed.
Lemma b_with_index {X} (b : Bounded X) x i : b_index (b_with b x i) = i.
Proof. destruct b as [[y s] k]. reflexivity. Qed.
Lemma b_with_size {X} (b : Bounded X) x i : b_size (b_with b x i) = b_size b.
Proof. destruct b as [[y s] k]. reflexivity. Qed.

Ltac tidy := rewrite ?b_with_inner, ?b_with_index, ?b_with_size, ?b_with_idem.

Section Reader.
  Context {R : Type} (o : rops R).

  Lemma bounded_reader_ensure n b :
    exec (r_ensure o) tt [n] gen_BoundedReader_Ensure b = r_ensure (bounded_rops o) n b.
  Proof. run_it. cases. Qed.

  Lemma bounded_reader_read1 b :
    exec (fun _ => r_read1 o) 0 [] gen_BoundedReader_Read1 b = r_read1 (bounded_rops o) b.
  Proof. run_it. cases; tidy; reflexivity. Qed.

  (* Read(begin, end): len elements of es bytes each, n = len * es bytes in std::size_t arithmetic *)
  Lemma bounded_reader_readn len es b :
    exec (r_readn o) [] [len; es] gen_BoundedReader_ReadN b = r_readn (bounded_rops o) (wrap64 (es * len)) b.
  Proof. run_it. rewrite (N.mul_comm len es). cases; tidy; reflexivity. Qed.

  Lemma bounded_reader_skip n b :
    exec (r_skip o) tt [n] gen_BoundedReader_Skip b = r_skip (bounded_rops o) n b.
  Proof. run_it. cases; tidy; reflexivity. Qed.

  Lemma bounded_reader_read_padding b :
    exec (r_skip o) tt [] gen_BoundedReader_ReadPadding b = bounded_read_padding o b.
  Proof. run_it. cases; tidy; reflexivity. Qed.

  Lemma bounded_reader_gethandle ref b :
    exec (fun _ => r_gethandle o ref) 0%Z [] gen_BoundedReader_GetHandle b = r_gethandle (bounded_rops o) ref b.
  Proof. run_it. cases. Qed.
End Reader.

Section Writer.
  Context {W : Type} (o : wops W).

  Lemma bounded_writer_prepare n b :
    exec (w_prepare o) tt [n] gen_BoundedWriter_Prepare b = w_prepare (bounded_wops o) n b.
  Proof. run_it. cases. Qed.

  Lemma bounded_writer_write1 x b :
    exec (fun _ => w_write1 o x) tt [] gen_BoundedWriter_Write1 b = w_write1 (bounded_wops o) x b.
  Proof. run_it. cases; tidy; reflexivity. Qed.

  (* Write(begin, end): the elements are the bytes bs; len * es is their number *)
  Lemma bounded_writer_writen bs len es b : wrap64 (es * len) = N.of_nat (length bs) ->
    exec (fun _ => w_writen o bs) tt [len; es] gen_BoundedWriter_WriteN b = w_writen (bounded_wops o) bs b.
  Proof. intros E. run_it. rewrite (N.mul_comm len es), E. cases; tidy; reflexivity. Qed.

  Lemma bounded_writer_skip n v b :
    exec (fun k => w_skip o k v) tt [n] gen_BoundedWriter_Skip b = w_skip (bounded_wops o) n v b.
  Proof. run_it. cases; tidy; reflexivity. Qed.

  Lemma bounded_writer_write_padding v b :
    exec (fun k => w_skip o k v) tt [] gen_BoundedWriter_WritePadding b = bounded_write_padding o v b.
  Proof. run_it. cases; tidy; reflexivity. Qed.

  Lemma bounded_writer_pushhandle h b :
    exec (fun _ => w_pushhandle o h) 0%Z [] gen_BoundedWriter_PushHandle b = w_pushhandle (bounded_wops o) h b.
  Proof. run_it. cases. Qed.
End Writer.
