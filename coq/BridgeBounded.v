(* BridgeBounded.v — the methods of BoundedReader / BoundedWriter as translated from /repo's current headers
   (GenBounded.v, terms of Imp.bstmt) ARE the hand-written model IO.bounded_rops / bounded_wops / the padding
   functions, for every wrapped object, argument and state.  A change of a guard, of its error code, of the operand
   order of a subtraction, of what is added to index_ (or of whether it is added at all) changes GenBounded.v and
   breaks a lemma here. *)
From Nop Require Import Base Gen Bridge Imp GenBounded.
Local Open Scope N_scope.

Ltac run_it :=
  unfold exec; cbv [run test eval nth app
                    gen_BoundedReader_Ensure gen_BoundedReader_Read1 gen_BoundedReader_ReadN gen_BoundedReader_Skip
                    gen_BoundedReader_ReadPadding gen_BoundedReader_GetHandle
                    gen_BoundedWriter_Prepare gen_BoundedWriter_Write1 gen_BoundedWriter_WriteN gen_BoundedWriter_Skip
                    gen_BoundedWriter_WritePadding gen_BoundedWriter_PushHandle];
  cbn [r_ensure r_read1 r_readn r_skip r_gethandle w_prepare w_write1 w_writen w_skip w_pushhandle bounded_rops bounded_wops];
  unfold bounded_read_padding, bounded_write_padding, b_lift, b_keep.

From Coq Require Import Lia.
(* comparisons written another way round in the source (`!(a >= b)` for `a < b`, ...) leave contradictory case
   combinations: closed by arithmetic *)
Ltac cmp_hyps :=
  repeat match goal with
         | H : negb _ = true |- _ => apply Bool.negb_true_iff in H
         | H : negb _ = false |- _ => apply Bool.negb_false_iff in H
         | H : (_ <? _) = true |- _ => apply N.ltb_lt in H
         | H : (_ <? _) = false |- _ => apply N.ltb_ge in H
         | H : (_ <=? _) = true |- _ => apply N.leb_le in H
         | H : (_ <=? _) = false |- _ => apply N.leb_gt in H
         | H : (_ =? _) = true |- _ => apply N.eqb_eq in H
         | H : (_ =? _) = false |- _ => apply N.eqb_neq in H
         end.
Ltac absurd_cmp :=
  exfalso;
  repeat match goal with
         | H : (_ <? _) = true |- _ => apply N.ltb_lt in H
         | H : (_ <? _) = false |- _ => apply N.ltb_ge in H
         | H : (_ <=? _) = true |- _ => apply N.leb_le in H
         | H : (_ <=? _) = false |- _ => apply N.leb_gt in H
         | H : (_ =? _) = true |- _ => apply N.eqb_eq in H
         | H : (_ =? _) = false |- _ => apply N.eqb_neq in H
         end; lia.
Ltac cases :=
  repeat match goal with
         | |- context [if ?c then _ else _] => destruct c eqn:?
         | |- context [match ?m with Ok _ _ => _ | Err _ _ => _ end] => destruct m eqn:?
         end; cbn [negb]; try reflexivity; try discriminate; try absurd_cmp.

Lemma b_with_idem {X} (b : Bounded X) x i j : b_with (b_with b x i) x j = b_with b x j.
Proof. destruct b as [[y s] k]. reflexivity. Qed.
Lemma b_with_inner {X} (b : Bounded X) x i : b_inner (b_with b x i) = x.
Proof. destruct b as [[y s] k]. reflexivity. Qed.
Lemma b_with_index {X} (b : Bounded X) x i : b_index (b_with b x i) = i.
Proof. destruct b as [[y s] k]. reflexivity. Qed.
Lemma b_with_size {X} (b : Bounded X) x i : b_size (b_with b x i) = b_size b.
Proof. destruct b as [[y s] k]. reflexivity. Qed.

Ltac tidy := rewrite ?b_with_inner, ?b_with_index, ?b_with_size, ?b_with_idem.

Section Reader.
  Context {R : Type} (o : rops R).
  (* the bounded wrappers copy nothing themselves *)
  Let nocopy {A} (d : A) : N -> N -> R -> A := fun _ _ _ => d.

  Lemma bounded_reader_ensure n b :
    exec (r_ensure o) (nocopy tt) tt [n] gen_BoundedReader_Ensure b = r_ensure (bounded_rops o) n b.
  Proof. run_it. cases. Qed.

  Lemma bounded_reader_read1 b :
    exec (fun _ => r_read1 o) (nocopy 0) 0 [] gen_BoundedReader_Read1 b = r_read1 (bounded_rops o) b.
  Proof. run_it. cases; tidy; reflexivity. Qed.

  (* Read(begin, end): len elements of es bytes each, n = len * es bytes in std::size_t arithmetic *)
  Lemma bounded_reader_readn len es b :
    exec (r_readn o) (nocopy []) [] [len; es] gen_BoundedReader_ReadN b = r_readn (bounded_rops o) (wrap64 (es * len)) b.
  Proof. run_it. rewrite (N.mul_comm len es). cases; tidy; reflexivity. Qed.

  Lemma bounded_reader_skip n b :
    exec (r_skip o) (nocopy tt) tt [n] gen_BoundedReader_Skip b = r_skip (bounded_rops o) n b.
  Proof. run_it. cases; tidy; reflexivity. Qed.

  Lemma bounded_reader_read_padding b :
    exec (r_skip o) (nocopy tt) tt [] gen_BoundedReader_ReadPadding b = bounded_read_padding o b.
  Proof. run_it. cases; tidy; reflexivity. Qed.

  Lemma bounded_reader_gethandle ref b :
    exec (fun _ => r_gethandle o ref) (nocopy 0%Z) 0%Z [] gen_BoundedReader_GetHandle b = r_gethandle (bounded_rops o) ref b.
  Proof. run_it. cases. Qed.
End Reader.

Section Writer.
  Context {W : Type} (o : wops W).
  Let nocopy {A} (d : A) : N -> N -> W -> A := fun _ _ _ => d.

  Lemma bounded_writer_prepare n b :
    exec (w_prepare o) (nocopy tt) tt [n] gen_BoundedWriter_Prepare b = w_prepare (bounded_wops o) n b.
  Proof. run_it. cases. Qed.

  Lemma bounded_writer_write1 x b :
    exec (fun _ => w_write1 o x) (nocopy tt) tt [] gen_BoundedWriter_Write1 b = w_write1 (bounded_wops o) x b.
  Proof. run_it. cases; tidy; reflexivity. Qed.

  (* Write(begin, end): the elements are the bytes bs; len * es is their number *)
  Lemma bounded_writer_writen bs len es b : wrap64 (es * len) = N.of_nat (length bs) ->
    exec (fun _ => w_writen o bs) (nocopy tt) tt [len; es] gen_BoundedWriter_WriteN b = w_writen (bounded_wops o) bs b.
  Proof. intros E. run_it. rewrite (N.mul_comm len es), E. cases; tidy; reflexivity. Qed.

  Lemma bounded_writer_skip n v b :
    exec (fun k => w_skip o k v) (nocopy tt) tt [n] gen_BoundedWriter_Skip b = w_skip (bounded_wops o) n v b.
  Proof. run_it. cases; tidy; reflexivity. Qed.

  Lemma bounded_writer_write_padding v b :
    exec (fun k => w_skip o k v) (nocopy tt) tt [] gen_BoundedWriter_WritePadding b = bounded_write_padding o v b.
  Proof. run_it. cases; tidy; reflexivity. Qed.

  Lemma bounded_writer_pushhandle h b :
    exec (fun _ => w_pushhandle o h) (nocopy 0%Z) 0%Z [] gen_BoundedWriter_PushHandle b = w_pushhandle (bounded_wops o) h b.
  Proof. run_it. cases. Qed.
End Writer.

(* ---- BufferReader / PedanticBufferReader ------------------------------------------------------------------- *)
(* The model IO.bufr_ops keeps the buffer and index_ (size_ is the buffer's length); the translated methods run on the
   same three components.  The one-byte Read is `return Read(byte, byte + 1)` in the source: GenBounded records that
   fact, and the model's one-byte read is its block read of one byte. *)
Section BufferReaders.
  Definition br_state (r : bufr) : Bounded bytes := (br_buf r, br_size r, br_idx r).
  Definition br_back {A} (m : res A (Bounded bytes)) : res A bufr :=
    match m with
    | Ok a b => Ok a {| br_buf := b_inner b; br_idx := b_index b |}
    | Err e b => Err e {| br_buf := b_inner b; br_idx := b_index b |}
    end.
  Definition nocall {A} : N -> bytes -> res A bytes := fun _ x => Err 0 x.
  Definition slice (off len : N) (buf : bytes) : bytes := firstn (N.to_nat len) (skipn (N.to_nat off) buf).

  Ltac run_buf :=
    unfold exec, br_state, br_back; cbv [run test eval nth app
      gen_BufferReader_Ensure gen_BufferReader_ReadN gen_BufferReader_Skip
      gen_PedanticBufferReader_Ensure gen_PedanticBufferReader_ReadN gen_PedanticBufferReader_Skip];
    cbn [r_ensure r_readn r_skip bufr_ops b_size b_index b_inner b_with fst snd]; unfold br_adv, br_slice, slice.

  Lemma ensure_agrees s n r : s = gen_BufferReader_Ensure \/ s = gen_PedanticBufferReader_Ensure ->
    br_back (exec nocall (fun _ _ _ => tt) tt [n] s (br_state r)) = r_ensure bufr_ops n r.
  Proof. intros [-> | ->]; destruct r as [buf idx]; run_buf; cases. Qed.

  Lemma skip_agrees s n r : s = gen_BufferReader_Skip \/ s = gen_PedanticBufferReader_Skip ->
    br_back (exec nocall (fun _ _ _ => tt) tt [n] s (br_state r)) = r_skip bufr_ops n r.
  Proof. intros [-> | ->]; destruct r as [buf idx]; run_buf; cases. Qed.

  Lemma readn_agrees s len es r : s = gen_BufferReader_ReadN \/ s = gen_PedanticBufferReader_ReadN ->
    br_back (exec nocall slice [] [len; es] s (br_state r)) = r_readn bufr_ops (wrap64 (es * len)) r.
  Proof.
    intros [-> | ->]; destruct r as [buf idx]; run_buf;
      replace (wrap64 (len * es)) with (wrap64 (es * len)) by (rewrite N.mul_comm; reflexivity);
      set (n := wrap64 (es * len)); cases;
      (* what is left are the paths on which nothing was copied: the length is 0 there *)
      (assert (n = 0) as -> by (cmp_hyps; lia); reflexivity).
  Qed.

  Lemma read1_is_block_read_of_one_byte :
    gen_BufferReader_Read1_delegates = true /\ gen_PedanticBufferReader_Read1_delegates = true /\
    forall r, r_read1 bufr_ops r = rmap (fun l => nth 0 l 0) (r_readn bufr_ops 1 r).
  Proof.
    split; [reflexivity|split; [reflexivity|]]. intros [buf idx]. cbn [r_read1 r_readn bufr_ops].
    destruct (sub64 _ _ <? 1); [reflexivity|]. cbn [rmap]. f_equal. unfold br_slice. cbn [br_idx br_buf].
    change (N.to_nat 1) with 1%nat. generalize (N.to_nat idx) as i. intros i. revert buf.
    induction i as [|i IH]; intros [|x xs]; cbn; try reflexivity. apply IH.
  Qed.
End BufferReaders.

(* ---- BufferWriter / PedanticBufferWriter / ConstexprBufferWriter: Prepare ------------------------------------ *)
(* The capacity check every serialization is predicated on (Serializer::Write calls Prepare(GetSize) first), as the
   three headers spell it today, is the model's w_prepare: size_ is bw_cap, index_ the number of bytes written. *)
Section BufferWriters.
  Definition bw_state (w : bufw) : Bounded bufw := (w, bw_cap w, bw_idx w).
  Definition bw_back {A} (m : res A (Bounded bufw)) : res A bufw :=
    match m with Ok a b => Ok a (b_inner b) | Err e b => Err e (b_inner b) end.
  Definition nocallw {A} : N -> bufw -> res A bufw := fun _ x => Err 0 x.

  Lemma writer_prepare_agrees s checked n w :
    s = gen_BufferWriter_Prepare \/ s = gen_PedanticBufferWriter_Prepare \/ s = gen_ConstexprBufferWriter_Prepare ->
    bw_back (exec nocallw (fun _ _ _ => tt) tt [n] s (bw_state w)) = w_prepare (bufw_ops checked) n w.
  Proof.
    intros [-> | [-> | ->]]; unfold exec, bw_state, bw_back;
      cbv [run test eval nth app gen_BufferWriter_Prepare gen_PedanticBufferWriter_Prepare gen_ConstexprBufferWriter_Prepare];
      cbn [w_prepare bufw_ops b_size b_index b_inner fst snd]; cases.
  Qed.
End BufferWriters.
