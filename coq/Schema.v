(* Schema.v — type descriptors (one constructor per family of C++ type
   constructors), wire-normalised values, typing.  Definitions only. *)
From Nop Require Export Wire.
Local Open Scope N_scope.

(* length policy of a homogeneous sequence *)
Inductive seqc :=
| CVec                                   (* std::vector<T>                *)
| CArr (carray : bool) (n : N)           (* std::array<T,n> / T[n]        *)
| CLBuf (carray : bool) (cap : N) (sk : ikind) (unb : bool).
                                         (* logical buffer: array + size  *)

Inductive tupk := KPair | KTuple | KStruct.

(* [c] on integers is the C++ identity tag: 0 = the fixed-width integer type
   itself, 1 = char, >= 2 = an enum with that underlying type.  Only tags 0/1
   are "integral" for the BIN/ARY choice (std::is_integral). *)
Inductive ty :=
| TScalar (c : N) (s : scalar)
| TStr (cw : N)                          (* basic_string, char width 1/2/4 *)
| TSeq (c : seqc) (t : ty)
| TTuple (k : tupk) (ts : list ty)       (* pair / tuple / annotated struct *)
| TWrap (id : N) (t : ty)                (* id 0: reference_wrapper; else NOP_VALUE wrapper *)
| TMap (unordered : bool) (k v : ty)
| TOpt (t : ty)
| TRes (eid : N) (ek : ikind) (t : ty)
| TVar (ts : list ty)
| THnd (pid : N) (tk : ikind) (tag : Z)
| TTab (hash : N) (es : list (N * bool * ty)).   (* (id, active, type) *)

Inductive val :=
| VInt (z : Z)
| VSeq (vs : list val)
| VMap (kvs : list (val * val))
| VNone
| VSome (v : val)
| VErr (e : Z)
| VOk (v : val)
| VAlt (i : Z) (v : val)
| VEmpty
| VHnd (h : Z)
| VTab (es : list val).     (* one VNone/VSome per declared entry *)

(* element kind of a BIN container: integral elements are stored raw *)
Definition raw_kind (t : ty) : option (nat * bool) :=
  match t with
  | TScalar c SBool => if c <? 2 then Some (1%nat, false) else None
  | TScalar c (SInt k) => if c <? 2 then Some (width k, signed k) else None
  | _ => None
  end.

Fixpoint val_eqb (a b : val) {struct a} : bool :=
  match a, b with
  | VInt x, VInt y => Z.eqb x y
  | VSeq xs, VSeq ys =>
      (fix go (xs ys : list val) : bool :=
         match xs, ys with
         | [], [] => true
         | x :: xs', y :: ys' => val_eqb x y && go xs' ys'
         | _, _ => false
         end) xs ys
  | VMap xs, VMap ys =>
      (fix go (xs ys : list (val * val)) : bool :=
         match xs, ys with
         | [], [] => true
         | (k1, v1) :: xs', (k2, v2) :: ys' =>
             val_eqb k1 k2 && val_eqb v1 v2 && go xs' ys'
         | _, _ => false
         end) xs ys
  | VNone, VNone => true
  | VSome x, VSome y => val_eqb x y
  | VErr x, VErr y => Z.eqb x y
  | VOk x, VOk y => val_eqb x y
  | VAlt i x, VAlt j y => Z.eqb i j && val_eqb x y
  | VEmpty, VEmpty => true
  | VHnd x, VHnd y => Z.eqb x y
  | VTab xs, VTab ys =>
      (fix go (xs ys : list val) : bool :=
         match xs, ys with
         | [], [] => true
         | x :: xs', y :: ys' => val_eqb x y && go xs' ys'
         | _, _ => false
         end) xs ys
  | _, _ => false
  end.

